package sym

// Native bridge for opaque host objects (regexp): methods are called through reflection on concrete arguments.

import (
	"fmt"
	"go/types"
	"reflect"
	"regexp"
	"strings"

	"golang.org/x/tools/go/ssa"
)

func (i *interpreter) toReflect(v value, t reflect.Type) (reflect.Value, bool) {
	switch t.Kind() {
	case reflect.String:
		s, ok := concreteString(v)
		return reflect.ValueOf(s), ok
	case reflect.Int:
		x, ok := v.(ival)
		if !ok || !x.t.IsConst() {
			return reflect.Value{}, false
		}
		return reflect.ValueOf(int(x.i64())), true
	case reflect.Bool:
		x, ok := v.(ival)
		if !ok || !x.t.IsConst() {
			return reflect.Value{}, false
		}
		return reflect.ValueOf(x.t.val != 0), true
	case reflect.Slice:
		if t.Elem().Kind() == reflect.Uint8 {
			xs, ok := v.([]value)
			if !ok {
				return reflect.Value{}, false
			}
			b := make([]byte, len(xs))
			for j, e := range xs {
				ev := e.(ival)
				if !ev.t.IsConst() {
					return reflect.Value{}, false
				}
				b[j] = byte(ev.t.val)
			}
			return reflect.ValueOf(b), true
		}
	}
	return reflect.Value{}, false
}

func (i *interpreter) fromReflect(rv reflect.Value) value {
	switch rv.Kind() {
	case reflect.String:
		return rv.String()
	case reflect.Bool:
		return i.mkBool(rv.Bool())
	case reflect.Int:
		return i.mkInt(types.Int, rv.Int())
	case reflect.Slice:
		if rv.IsNil() {
			return []value(nil)
		}
		if rv.Type().Elem().Kind() == reflect.Uint8 {
			b := rv.Bytes()
			r := make([]value, len(b))
			for j := range b {
				r[j] = i.mkByte(b[j])
			}
			return r
		}
		r := make([]value, rv.Len())
		for j := range r {
			r[j] = i.fromReflect(rv.Index(j))
		}
		return r
	}
	panic(fmt.Sprintf("fromReflect: unsupported kind %s", rv.Kind()))
}

// regexpMethod handles any (*regexp.Regexp) method whose arguments are concrete.
func regexpMethod(fn *ssa.Function) externalFn {
	name := fn.Name()
	return func(fr *frame, a []value) value {
		i := fr.i
		p, _ := a[0].(*value)
		if p == nil {
			i.throw("invalid memory address or nil pointer dereference")
		}
		n, ok := (*p).(*native)
		if !ok {
			i.unsupported("regexp method %s on a Regexp not created by MustCompile/Compile", name)
		}
		re := n.v.(*regexp.Regexp)
		m := reflect.ValueOf(re).MethodByName(name)
		if !m.IsValid() {
			i.unsupported("regexp method %s", name)
		}
		mt := m.Type()
		if mt.NumIn() != len(a)-1 {
			i.unsupported("regexp method %s: arity", name)
		}
		in := make([]reflect.Value, mt.NumIn())
		for k := range in {
			rv, ok := i.toReflect(a[k+1], mt.In(k))
			if !ok {
				i.unsupported("regexp method %s on a symbolic or unsupported argument", name)
			}
			in[k] = rv
		}
		out := m.Call(in)
		switch len(out) {
		case 0:
			return nil
		case 1:
			return i.fromReflect(out[0])
		}
		t := make(tuple, len(out))
		for k := range out {
			t[k] = i.fromReflect(out[k])
		}
		return t
	}
}

func init() {
	dynamicIntrinsics = append(dynamicIntrinsics, func(fn *ssa.Function, name string) externalFn {
		if strings.HasPrefix(name, "(*regexp.Regexp).") {
			return regexpMethod(fn)
		}
		return nil
	})
}
