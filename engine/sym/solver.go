package sym

// Solver session: one long-lived `z3 -in` process per worker; the assertion stack is rebuilt per path with
// (reset). Queries that come back `unknown` are retried one-shot on a portfolio (cvc5 int-blasting, cvc5, z3-new).
// Any "(error" line from a solver makes the query inconclusive.

import (
	"bufio"
	"bytes"
	"context"
	"fmt"
	"io"
	"os"
	"os/exec"
	"regexp"
	"strconv"
	"strings"
	"sync/atomic"
	"time"
)

type Result int

const (
	Unsat Result = iota
	Sat
	Unknown
)

func (r Result) String() string { return [...]string{"unsat", "sat", "unknown"}[r] }

type SolverStats struct {
	Queries      int64
	Sat          int64
	UnsatN       int64
	UnknownN     int64
	Fallback     int64
	Portfolio    int64
	FallbackWon  int64
	WallNanos    int64
	ModelSkipped int64 // branch sides decided by evaluating the cached model (no query)
	DiffChecked  int64
	DiffMismatch int64
}

var GlobalStats SolverStats

// session is one long-lived solver process fed with a prefix of the Solver's log.
type session struct {
	argv   []string
	cmd    *exec.Cmd
	in     io.WriteCloser
	out    *bufio.Reader
	synced int // bytes of the log already sent
	dead   bool
	wall   time.Duration
	rlimit bool // z3-style: needs (set-option :rlimit) after start/reset
	fresh  bool // needs its prelude (after start or reset)
}

func (ss *session) start() error {
	cmd := exec.Command(ss.argv[0], ss.argv[1:]...)
	in, err := cmd.StdinPipe()
	if err != nil {
		return err
	}
	out, err := cmd.StdoutPipe()
	if err != nil {
		return err
	}
	cmd.Stderr = io.Discard
	if err := cmd.Start(); err != nil {
		return err
	}
	ss.cmd, ss.in, ss.out = cmd, in, bufio.NewReaderSize(out, 1<<16)
	ss.dead = false
	ss.synced = 0
	ss.fresh = true
	return nil
}

func (ss *session) close() {
	if ss.cmd != nil {
		ss.in.Close()
		ss.cmd.Process.Kill()
		ss.cmd.Wait()
		ss.cmd = nil
	}
}

func (ss *session) readLine() (string, error) {
	line, err := ss.out.ReadString('\n')
	return strings.TrimSpace(line), err
}

// readSexp reads one balanced s-expression (possibly multi-line).
func (ss *session) readSexp() (string, error) {
	var b strings.Builder
	depth := 0
	started := false
	for {
		line, err := ss.out.ReadString('\n')
		if err != nil {
			return b.String(), err
		}
		inBar := false
		for _, ch := range line {
			if ch == '|' {
				inBar = !inBar
			}
			if inBar {
				continue
			}
			if ch == '(' {
				depth++
				started = true
			} else if ch == ')' {
				depth--
			}
		}
		b.WriteString(line)
		if started && depth <= 0 {
			return b.String(), nil
		}
		if !started && strings.TrimSpace(line) != "" {
			return b.String(), nil
		}
	}
}

// query runs push/assert/check-sat[/get-value]/pop on the session after bringing it up to date with log.
func (ss *session) query(log []byte, extraRef string, names []string) (Result, map[string]uint64, error) {
	if ss.cmd == nil || ss.dead {
		ss.close()
		if err := ss.start(); err != nil {
			return Unknown, nil, err
		}
	}
	q := "(push 1)\n"
	if extraRef != "" {
		q += "(assert " + extraRef + ")\n"
	}
	q += "(check-sat)\n"
	// The write and the read both run under a watchdog: a back end that ignores its own limit, or that stops
	// reading its input, is killed and the query counts as unknown.
	type lineRes struct {
		s   string
		err error
	}
	ch := make(chan lineRes, 1)
	pending := log[ss.synced:]
	ss.synced = len(log)
	in, rd := ss.in, ss.out
	go func() {
		if len(pending) > 0 {
			if _, e := in.Write(pending); e != nil {
				ch <- lineRes{"", e}
				return
			}
		}
		if _, e := io.WriteString(in, q); e != nil {
			ch <- lineRes{"", e}
			return
		}
		l, e := rd.ReadString('\n')
		ch <- lineRes{strings.TrimSpace(l), e}
	}()
	var line string
	var err error
	select {
	case r := <-ch:
		line, err = r.s, r.err
	case <-time.After(ss.wall):
		ss.cmd.Process.Kill()
		<-ch
		ss.close()
		ss.dead = true
		return Unknown, nil, nil
	}
	if err != nil {
		ss.dead = true
		return Unknown, nil, fmt.Errorf("%s died: %v", ss.argv[0], err)
	}
	var res Result
	switch line {
	case "sat":
		res = Sat
	case "unsat":
		res = Unsat
	case "unknown", "timeout":
		res = Unknown
	default:
		ss.dead = true
		if d := os.Getenv("VERIF_SOLVER_DUMP"); d != "" {
			os.WriteFile(fmt.Sprintf("%s/err-%d.smt2", d, time.Now().UnixNano()), []byte(string(log)+q+"; answer: "+line+"\n"), 0o644)
		}
		return Unknown, nil, fmt.Errorf("%s said: %s", ss.argv[0], line)
	}
	var model map[string]uint64
	if res == Sat && names != nil {
		model = map[string]uint64{}
		if len(names) > 0 {
			io.WriteString(ss.in, "(get-value ("+strings.Join(names, " ")+"))\n")
			txt, err := ss.readSexp()
			if err != nil {
				ss.dead = true
				return Unknown, nil, fmt.Errorf("%s died in get-value: %v", ss.argv[0], err)
			}
			if strings.Contains(txt, "(error") {
				ss.dead = true
				return Unknown, nil, fmt.Errorf("%s get-value error: %s", ss.argv[0], txt)
			}
			model = parseModel(txt)
		}
	}
	io.WriteString(ss.in, "(pop 1)\n")
	return res, model, nil
}

type Solver struct {
	z3        *session   // z3 4.8.12 with a resource limit (bit-blasting)
	z3n       *session   // z3 5.1.0 with a resource limit
	cvc       *session   // cvc5 incremental with int-blasting (arithmetic-heavy queries)
	order     []*session // most-recently-successful first
	defined   map[int]bool
	log       bytes.Buffer // declarations, definitions and assertions of the current path
	Timeout   time.Duration
	Stage1    time.Duration
	Diff      bool // cross-check every query on z3-new and cvc5
	ctx       *TermCtx
	preferCvc int // consecutive wins of the secondary; when high, it is asked first
}

func NewSolver(timeout time.Duration) (*Solver, error) {
	s := &Solver{Timeout: timeout, Stage1: 500 * time.Millisecond}
	s.z3 = &session{argv: []string{solverBin, "-in"}, wall: timeout + 5*time.Second}
	tl := int(timeout / time.Millisecond)
	if tl > 10000 {
		tl = 10000
	}
	s.cvc = &session{argv: []string{"cvc5", "--lang=smt2", "--incremental", "--produce-models", "--solve-bv-as-int=sum", fmt.Sprintf("--tlimit-per=%d", tl)}, wall: time.Duration(tl)*time.Millisecond + 2*time.Second}
	s.z3n = &session{argv: []string{"z3-new", "-in"}, wall: timeout + 5*time.Second, rlimit: true}
	s.z3.rlimit = true
	if err := s.z3.start(); err != nil {
		return nil, err
	}
	s.order = []*session{s.z3, s.z3n, s.cvc}
	if o := os.Getenv("VERIF_SOLVERS"); o != "" { // debugging aid: restrict / reorder the incremental back ends
		s.order = nil
		for _, n := range strings.Split(o, ",") {
			switch n {
			case "z3":
				s.order = append(s.order, s.z3)
			case "z3new":
				s.order = append(s.order, s.z3n)
			case "cvc5int":
				s.order = append(s.order, s.cvc)
			}
		}
	}
	return s, nil
}

func (s *Solver) Close() {
	s.z3.close()
	s.z3n.close()
	s.cvc.close()
}

func (s *Solver) send(text string) {
	s.log.WriteString(text)
}

// Reset starts a fresh assertion stack for a new path.
func (s *Solver) Reset(ctx *TermCtx) {
	s.ctx = ctx
	s.defined = map[int]bool{}
	s.log.Reset()
	for _, ss := range s.order {
		ss.synced = 0
		if ss.cmd != nil && !ss.dead {
			io.WriteString(ss.in, "(reset)\n")
			ss.fresh = true
		}
	}
}

// prelude returns what a fresh (started or reset) session must see before the log.
func (s *Solver) prelude(ss *session) string {
	if ss.rlimit {
		// resource limit instead of a wall-clock timer: deterministic, and free of the timer/cancel race observed
		// with (set-option :timeout) in both z3 builds ("push canceled" on a later command).
		return "(set-option :rlimit " + strconv.Itoa(int(s.Stage1/time.Millisecond)*rlimitPerMs) + ")\n"
	}
	return "(set-logic ALL)\n"
}

func (s *Solver) define(t *Term) {
	if t.op == OpConst || s.defined[t.id] {
		return
	}
	// iterative post-order to avoid deep recursion
	type item struct {
		t    *Term
		done bool
	}
	stack := []item{{t, false}}
	var sb strings.Builder
	for len(stack) > 0 {
		it := stack[len(stack)-1]
		stack = stack[:len(stack)-1]
		if it.t.op == OpConst || s.defined[it.t.id] {
			continue
		}
		if it.t.op == OpVar {
			s.defined[it.t.id] = true
			fmt.Fprintf(&sb, "(declare-const %s %s)\n", it.t.ref(), sortOf(it.t.w))
			continue
		}
		if it.done {
			s.defined[it.t.id] = true
			fmt.Fprintf(&sb, "(define-fun %s () %s %s)\n", it.t.ref(), sortOf(it.t.w), it.t.body())
			continue
		}
		stack = append(stack, item{it.t, true})
		for _, a := range it.t.args {
			if a.op != OpConst && !s.defined[a.id] {
				stack = append(stack, item{a, false})
			}
		}
	}
	s.send(sb.String())
}

func (s *Solver) Assert(t *Term) {
	if t.IsConst() && t.val == 1 {
		return
	}
	s.define(t)
	s.send("(assert " + t.ref() + ")\n")
}

var valRe = regexp.MustCompile(`\(\s*\|?([^|\s()]+)\|?\s+(#x[0-9a-fA-F]+|#b[01]+|true|false)\s*\)`)

func parseModel(txt string) map[string]uint64 {
	m := map[string]uint64{}
	for _, g := range valRe.FindAllStringSubmatch(txt, -1) {
		var v uint64
		switch {
		case g[2] == "true":
			v = 1
		case g[2] == "false":
			v = 0
		case strings.HasPrefix(g[2], "#x"):
			v, _ = strconv.ParseUint(g[2][2:], 16, 64)
		default:
			v, _ = strconv.ParseUint(g[2][2:], 2, 64)
		}
		m[g[1]] = v
	}
	return m
}

// Check decides satisfiability of (assertions ∧ extra). If wantModel and the answer is sat, the values of all
// variables declared so far are returned.
func (s *Solver) Check(extra *Term, wantModel bool) (Result, map[string]uint64, error) {
	atomic.AddInt64(&GlobalStats.Queries, 1)
	t0 := time.Now()
	defer func() { atomic.AddInt64(&GlobalStats.WallNanos, int64(time.Since(t0))) }()
	if extra != nil && extra.IsConst() {
		if extra.val == 0 {
			atomic.AddInt64(&GlobalStats.UnsatN, 1)
			return Unsat, nil, nil
		}
		extra = nil
	}
	extraRef := ""
	if extra != nil {
		s.define(extra)
		extraRef = extra.ref()
	}
	var names []string
	if wantModel {
		names = []string{}
		for _, v := range s.ctx.vars {
			if s.defined[v.id] {
				names = append(names, v.ref())
			}
		}
	}
	log := s.log.Bytes()
	res, model := Unknown, map[string]uint64(nil)
	var err error
	for k, ss := range s.order {
		if ss.cmd == nil || ss.dead {
			ss.close()
			if e := ss.start(); e != nil {
				err = e
				continue
			}
		}
		if ss.fresh {
			io.WriteString(ss.in, s.prelude(ss))
			ss.fresh = false
		}
		r, m, e := ss.query(log, extraRef, names)
		if e != nil {
			err = e
			continue
		}
		if r != Unknown {
			res, model, err = r, m, nil
			if k > 0 {
				atomic.AddInt64(&GlobalStats.FallbackWon, 1)
				// move the winner to the front
				copy(s.order[1:k+1], s.order[:k])
				s.order[0] = ss
			}
			break
		}
		atomic.AddInt64(&GlobalStats.Fallback, 1)
	}
	if res == Unknown || s.Diff {
		full := string(log)
		if extraRef != "" {
			full += "(assert " + extraRef + ")\n"
		}
		if res == Unknown {
			if d := os.Getenv("VERIF_SOLVER_DUMP"); d != "" {
				os.WriteFile(fmt.Sprintf("%s/fb-%d.smt2", d, time.Now().UnixNano()), []byte(full+"(check-sat)\n"), 0o644)
			}
			atomic.AddInt64(&GlobalStats.Portfolio, 1)
			r2, m2 := portfolio(full, s.ctx, s.defined, wantModel, s.Timeout)
			res, model, err = r2, m2, nil
		} else {
			atomic.AddInt64(&GlobalStats.DiffChecked, 1)
			for _, alt := range [][]string{{"z3-new", "-in"}, {"cvc5", "--lang=smt2", "--produce-models"}} {
				r2, _, e2 := oneShot(alt, full, nil, s.Timeout)
				if e2 == nil && r2 != Unknown && r2 != res {
					atomic.AddInt64(&GlobalStats.DiffMismatch, 1)
					return Unknown, nil, fmt.Errorf("solver disagreement: primary=%v %s=%v", res, alt[0], r2)
				}
			}
		}
	}
	switch res {
	case Sat:
		atomic.AddInt64(&GlobalStats.Sat, 1)
	case Unsat:
		atomic.AddInt64(&GlobalStats.UnsatN, 1)
	default:
		atomic.AddInt64(&GlobalStats.UnknownN, 1)
		if err != nil {
			return Unknown, nil, err
		}
	}
	return res, model, nil
}

// Dump returns the SMT-LIB text of the current assertion stack plus an optional extra assertion.
func (s *Solver) Dump(extra *Term) string {
	if extra != nil && !extra.IsConst() {
		s.define(extra)
	}
	txt := s.log.String()
	if extra != nil {
		txt += "(assert " + extra.ref() + ")\n"
	}
	return txt + "(check-sat)\n"
}

func portfolio(full string, ctx *TermCtx, defined map[int]bool, wantModel bool, timeout time.Duration) (Result, map[string]uint64) {
	var names []string
	if wantModel {
		for _, v := range ctx.vars {
			if defined[v.id] {
				names = append(names, v.ref())
			}
		}
	}
	cmds := [][]string{
		{"cvc5", "--lang=smt2", "--produce-models", "--solve-bv-as-int=sum"},
		{"cvc5", "--lang=smt2", "--produce-models"},
		{"z3-new", "-in"},
	}
	type ans struct {
		r Result
		m map[string]uint64
	}
	ch := make(chan ans, len(cmds))
	cctx, cancel := context.WithCancel(context.Background())
	defer cancel()
	for _, c := range cmds {
		go func(c []string) {
			r, m, err := oneShotCtx(cctx, c, full, names, timeout)
			if err != nil {
				r = Unknown
			}
			ch <- ans{r, m}
		}(c)
	}
	for range cmds {
		a := <-ch
		if a.r != Unknown {
			return a.r, a.m
		}
	}
	return Unknown, nil
}

func oneShot(cmdline []string, full string, names []string, timeout time.Duration) (Result, map[string]uint64, error) {
	return oneShotCtx(context.Background(), cmdline, full, names, timeout)
}

func oneShotCtx(ctx context.Context, cmdline []string, full string, names []string, timeout time.Duration) (Result, map[string]uint64, error) {
	txt := strings.Replace(full, "(reset)\n", "", 1)
	// drop z3-specific timeout option for other solvers
	lines := strings.Split(txt, "\n")
	var b strings.Builder
	b.WriteString("(set-logic ALL)\n")
	if len(names) > 0 {
		b.WriteString("(set-option :produce-models true)\n")
	}
	for _, l := range lines {
		if strings.HasPrefix(l, "(set-option :timeout") || strings.HasPrefix(l, "(set-option :rlimit") {
			continue
		}
		b.WriteString(l)
		b.WriteByte('\n')
	}
	b.WriteString("(check-sat)\n")
	if len(names) > 0 {
		b.WriteString("(get-value (" + strings.Join(names, " ") + "))\n")
	}
	args := cmdline[1:]
	if cmdline[0] == "cvc5" {
		args = append(args, fmt.Sprintf("--tlimit=%d", int(timeout/time.Millisecond)))
	} else {
		args = append(args, fmt.Sprintf("-T:%d", int(timeout/time.Second)+1))
	}
	cmd := exec.Command(cmdline[0], args...)
	cmd.Stdin = strings.NewReader(b.String())
	var out bytes.Buffer
	cmd.Stdout = &out
	cmd.Stderr = &out
	done := make(chan error, 1)
	cmd.Start()
	go func() { done <- cmd.Wait() }()
	select {
	case <-done:
	case <-time.After(timeout + 2*time.Second):
		cmd.Process.Kill()
		<-done
		return Unknown, nil, nil
	case <-ctx.Done():
		cmd.Process.Kill()
		<-done
		return Unknown, nil, nil
	}
	o := out.String()
	first := firstLine(o)
	switch first {
	case "sat":
		if strings.Contains(o, "(error") {
			return Unknown, nil, fmt.Errorf("%s error: %s", cmdline[0], o)
		}
		var m map[string]uint64
		if len(names) > 0 {
			m = parseModel(o)
		}
		return Sat, m, nil
	case "unsat":
		return Unsat, nil, nil
	}
	if strings.Contains(o, "(error") {
		return Unknown, nil, fmt.Errorf("%s error: %s", cmdline[0], first)
	}
	return Unknown, nil, nil
}

func firstLine(s string) string {
	s = strings.TrimSpace(s)
	if i := strings.IndexByte(s, '\n'); i >= 0 {
		return s[:i]
	}
	return s
}

const rlimitPerMs = 4000 // measured: ~4-8 M rlimit units per second on bit-vector queries in this sandbox

// solverBin is the incremental back end. z3 4.8.12's timeout timer races with the next command ("push canceled"),
// so the newer z3 build is the default; z3 4.8.12 and cvc5 remain in the portfolio / diff roles.
var solverBin = func() string {
	if b := os.Getenv("VERIF_Z3"); b != "" {
		return b
	}
	return "z3"
}()
