package sym

// Intrinsics: the harness API (package zzverifrt), synchronisation primitives, fmt/errors, assembly-backed
// stdlib leaves, and pattern-stubbed packages (logging, metrics).

import (
	"crypto/sha256"
	"crypto/sha512"
	"fmt"
	"go/types"
	"path"
	"path/filepath"
	"regexp"
	"strconv"
	"strings"

	"golang.org/x/tools/go/ssa"
)

type externalFn func(fr *frame, args []value) value

var externals map[string]externalFn
var rtIntrinsics map[string]externalFn

// packages whose functions are replaced by no-ops returning zero values
var stubPkgPrefixes = []string{
	"github.com/containerd/log",
	"github.com/sirupsen/logrus",
	"github.com/containerd/stargz-snapshotter/fs/metrics/",
	"github.com/prometheus/",
	"github.com/docker/go-metrics",
	"log",
	"log/slog",
}

func pkgPathOf(fn *ssa.Function) string {
	if fn.Pkg != nil {
		return fn.Pkg.Pkg.Path()
	}
	if o := fn.Origin(); o != nil && o.Pkg != nil {
		return o.Pkg.Pkg.Path()
	}
	if recv := fn.Signature.Recv(); recv != nil {
		t := recv.Type()
		if p, ok := t.(*types.Pointer); ok {
			t = p.Elem()
		}
		if n, ok := t.(*types.Named); ok && n.Obj().Pkg() != nil {
			return n.Obj().Pkg().Path()
		}
	}
	return ""
}

var dynamicIntrinsics []func(fn *ssa.Function, name string) externalFn

func intrinsicFor(fn *ssa.Function, name string) externalFn {
	if e, ok := externals[name]; ok {
		return e
	}
	for _, d := range dynamicIntrinsics {
		if e := d(fn, name); e != nil {
			return e
		}
	}
	pp := pkgPathOf(fn)
	if strings.HasSuffix(pp, "/zzverifrt") {
		if fn.Signature.Recv() == nil {
			if e, ok := rtIntrinsics[fn.Name()]; ok {
				return e
			}
		}
		return nil // model code of the runtime package is interpreted
	}
	if fn.Synthetic == "package initializer" || strings.HasPrefix(fn.Name(), "init#") {
		return nil // initialisers of stubbed packages still run (function-typed globals such as log.G)
	}
	for _, p := range stubPkgPrefixes {
		if pp == p || strings.HasPrefix(pp, p) && (strings.HasSuffix(p, "/") || strings.HasPrefix(pp[len(p):], "/")) {
			return func(fr *frame, args []value) value {
				return fr.i.zero(fn.Signature.Results())
			}
		}
	}
	return nil
}

func (i *interpreter) argStr(v value, what string) string {
	s, ok := concreteString(v)
	if !ok {
		i.unsupported("%s must be a concrete string", what)
	}
	return s
}

func (i *interpreter) nondet(tag string, kind string, k types.BasicKind) value {
	w, _ := kindInfo(k)
	t := i.ctx.FreshVar(tag, max(w, 0))
	i.ex.nondets = append(i.ex.nondets, nondetRec{Tag: tag, Kind: kind, term: t})
	return ival{t, k}
}

func init() {
	rtIntrinsics = map[string]externalFn{
		"I64":  func(fr *frame, a []value) value { return fr.i.nondet(fr.i.argStr(a[0], "tag"), "i64", types.Int64) },
		"U64":  func(fr *frame, a []value) value { return fr.i.nondet(fr.i.argStr(a[0], "tag"), "u64", types.Uint64) },
		"I32":  func(fr *frame, a []value) value { return fr.i.nondet(fr.i.argStr(a[0], "tag"), "i32", types.Int32) },
		"U32":  func(fr *frame, a []value) value { return fr.i.nondet(fr.i.argStr(a[0], "tag"), "u32", types.Uint32) },
		"U16":  func(fr *frame, a []value) value { return fr.i.nondet(fr.i.argStr(a[0], "tag"), "u16", types.Uint16) },
		"U8":   func(fr *frame, a []value) value { return fr.i.nondet(fr.i.argStr(a[0], "tag"), "u8", types.Uint8) },
		"Int":  func(fr *frame, a []value) value { return fr.i.nondet(fr.i.argStr(a[0], "tag"), "int", types.Int) },
		"Bool": func(fr *frame, a []value) value { return fr.i.nondet(fr.i.argStr(a[0], "tag"), "bool", types.Bool) },
		"Bytes": func(fr *frame, a []value) value {
			i := fr.i
			tag := i.argStr(a[0], "tag")
			n := int(i.concInt(a[1], "Bytes length"))
			r := make([]value, n)
			for j := range r {
				r[j] = i.nondet(fmt.Sprintf("%s[%d]", tag, j), "u8", types.Uint8)
			}
			return r
		},
		"Str": func(fr *frame, a []value) value {
			i := fr.i
			tag := i.argStr(a[0], "tag")
			n := int(i.concInt(a[1], "Str length"))
			r := make([]value, n)
			for j := range r {
				r[j] = i.nondet(fmt.Sprintf("%s[%d]", tag, j), "u8", types.Uint8)
			}
			return mkStr(r)
		},
		"Len": func(fr *frame, a []value) value {
			i := fr.i
			n := int(i.concInt(a[1], "Len max"))
			return i.mkInt(types.Int, int64(i.ex.Choose(n+1, i.argStr(a[0], "tag"))))
		},
		"Choice": func(fr *frame, a []value) value {
			i := fr.i
			n := int(i.concInt(a[1], "Choice n"))
			return i.mkInt(types.Int, int64(i.ex.Choose(n, i.argStr(a[0], "tag"))))
		},
		"Concrete": func(fr *frame, a []value) value {
			i := fr.i
			return i.mkInt(types.Int, i.concInt(a[0], "Concrete()"))
		},
		"Assume": func(fr *frame, a []value) value {
			fr.i.ex.Assume(a[0].(ival).t)
			return nil
		},
		"Assert": func(fr *frame, a []value) value {
			i := fr.i
			c := a[0].(ival).t
			id := i.argStr(a[1], "assert id")
			i.ex.asserts++
			if !c.IsConst() {
				i.ex.symAsserts++
			}
			if !i.ex.Branch(c) {
				panic(pathEnd{oViolation, id})
			}
			return nil
		},
		"Reach": func(fr *frame, a []value) value {
			fr.i.ex.reached = append(fr.i.ex.reached, fr.i.argStr(a[0], "reach id"))
			return nil
		},
		"Known": func(fr *frame, a []value) value {
			i := fr.i
			id := i.argStr(a[0], "known id")
			if !i.cfg.KnownOpen[id] {
				return nil
			}
			if i.ex.Branch(a[1].(ival).t) {
				i.ex.known = id
			}
			return nil
		},
		"Native": func(fr *frame, a []value) value { return fr.i.mkBool(false) },
		// Report(key, v): translator validation -- the engine records the rendered value, the native run prints it,
		// the self-test compares the two.
		"Report": func(fr *frame, a []value) value {
			i := fr.i
			key := i.argStr(a[0], "report key")
			i.ex.reports = append(i.ex.reports, key+"="+renderReport(i, a[1]))
			return nil
		},
		// Symbolize(s): the same string, but made of symbolic bytes constrained to s (forces the symbolic code paths
		// of the engine -- summaries, ite-chains -- on inputs whose native result is known).
		"Symbolize": func(fr *frame, a []value) value {
			i := fr.i
			s := i.argStr(a[0], "Symbolize argument")
			bs := make([]value, len(s))
			for k := 0; k < len(s); k++ {
				t := i.ctx.FreshVar("symz", 8)
				i.ex.Assume(i.ctx.Cmp(OpEq, t, i.ctx.BV(uint64(s[k]), 8)))
				bs[k] = ival{t, types.Uint8}
			}
			return sstr{bs}
		},
		"SymbolizeI64": func(fr *frame, a []value) value {
			i := fr.i
			x := a[0].(ival)
			t := i.ctx.FreshVar("symz", 64)
			i.ex.Assume(i.ctx.Cmp(OpEq, t, x.t))
			return ival{t, types.Int64}
		},
		"EngineOnlyReplay": func(fr *frame, a []value) value {
			fr.i.ex.engineOnly = fr.i.argStr(a[0], "reason")
			return nil
		},
		"Tier": func(fr *frame, a []value) value { return fr.i.mkInt(types.Int, int64(fr.i.cfg.Tier)) },
		"Replace": func(fr *frame, a []value) value {
			i := fr.i
			name := i.argStr(a[0], "function name")
			f := a[1].(iface)
			i.replace[name] = f.v
			return nil
		},
		"Stub": func(fr *frame, a []value) value {
			fr.i.stubs[fr.i.argStr(a[0], "function name")] = true
			return nil
		},
		"MapOrders": func(fr *frame, a []value) value {
			b, _ := isConstBool(a[0])
			fr.i.cfg.MapOrders = b
			return nil
		},
		"Interleave": func(fr *frame, a []value) value {
			fr.i.cfg.Interleave = true
			fr.i.cfg.MaxSwitches = int(fr.i.concInt(a[0], "switch bound"))
			return nil
		},
		"Log": func(fr *frame, a []value) value {
			if fr.i.cfg.Trace {
				fmt.Fprintln(traceOut, "LOG:", toString(a[0]))
			}
			return nil
		},
		"Unsupported": func(fr *frame, a []value) value {
			fr.i.unsupported("%s", fr.i.argStr(a[0], "message"))
			return nil
		},
		// Process(f) runs f as a "process" that Crash() can kill: the frames of f are discarded without running any
		// deferred call of the code under test; Process returns true iff it was killed.
		"Process": func(fr *frame, a []value) (res value) {
			i := fr.i
			th := i.cur
			saved := th.curFrame
			defer func() {
				if r := recover(); r != nil {
					if _, ok := r.(crashPanic); ok {
						th.curFrame = saved
						res = i.mkBool(true)
						return
					}
					panic(r)
				}
			}()
			i.call(fr, fr.fn.Pos(), a[0], nil)
			return i.mkBool(false)
		},
		"Crash": func(fr *frame, a []value) value {
			panic(crashPanic{})
		},
		"SpawnDeferred": func(fr *frame, a []value) value {
			b, _ := isConstBool(a[0])
			fr.i.cfg.SpawnDeferred = b
			return nil
		},
		"Pending": func(fr *frame, a []value) value {
			n := 0
			for _, th := range fr.i.threads[1:] {
				if !th.done && (th.ready == nil || th.ready()) {
					n++
				}
			}
			return fr.i.mkInt(types.Int, int64(n))
		},
		"RunPending": func(fr *frame, a []value) value {
			i := fr.i
			k := int(i.concInt(a[0], "pending thread index"))
			n := 0
			for _, th := range i.threads[1:] {
				if !th.done && (th.ready == nil || th.ready()) {
					if n == k {
						i.switchTo(i.cur, th)
						return i.mkBool(true)
					}
					n++
				}
			}
			return i.mkBool(false)
		},
		"Timers": func(fr *frame, a []value) value {
			n := 0
			for _, t := range fr.i.timers {
				if t.active {
					n++
				}
			}
			return fr.i.mkInt(types.Int, int64(n))
		},
		"FireTimer": func(fr *frame, a []value) value {
			i := fr.i
			k := int(i.concInt(a[0], "timer index"))
			n := 0
			for _, t := range i.timers {
				if t.active {
					if n == k {
						t.active = false
						i.call(fr, fr.fn.Pos(), t.fn, nil)
						return i.mkBool(true)
					}
					n++
				}
			}
			return i.mkBool(false)
		},
		"Hex16": func(fr *frame, a []value) value { return fr.i.hexFixed(a[0].(ival), 16) },
	}

	externals = map[string]externalFn{
		// ---- sync ----
		"(*sync.Mutex).Lock":        extLock,
		"(*sync.Mutex).Unlock":      extUnlock,
		"(*sync.Mutex).TryLock":     extTryLock,
		"(*sync.RWMutex).Lock":      extLock,
		"(*sync.RWMutex).Unlock":    extUnlock,
		"(*sync.RWMutex).RLock":     extRLock,
		"(*sync.RWMutex).RUnlock":   extRUnlock,
		"(*sync.Once).Do":           extOnceDo,
		"(*sync.WaitGroup).Add":     extWgAdd,
		"(*sync.WaitGroup).Done":    func(fr *frame, a []value) value { return extWgAdd(fr, []value{a[0], fr.i.mkInt(types.Int, -1)}) },
		"(*sync.WaitGroup).Wait":    extWgWait,
		"(*sync.Cond).Wait":         extCondWait,
		"(*sync.Cond).Signal":       extCondSignal,
		"(*sync.Cond).Broadcast":    extCondBroadcast,
		"(*sync.Pool).Get":          extPoolGet,
		"(*sync.Pool).Put":          extPoolPut,
		"(*sync.Map).Load":          extSyncMapLoad,
		"(*sync.Map).Store":         extSyncMapStore,
		"(*sync.Map).LoadOrStore":   extSyncMapLoadOrStore,
		"(*sync.Map).LoadAndDelete": extSyncMapLoadAndDelete,
		"(*sync.Map).Delete":        func(fr *frame, a []value) value { extSyncMapLoadAndDelete(fr, a); return nil },
		"(*sync.Map).Range":         extSyncMapRange,

		// ---- sync/atomic ----
		"sync/atomic.AddInt32": extAtomicAdd, "sync/atomic.AddInt64": extAtomicAdd,
		"sync/atomic.AddUint32": extAtomicAdd, "sync/atomic.AddUint64": extAtomicAdd, "sync/atomic.AddUintptr": extAtomicAdd,
		"sync/atomic.LoadInt32": extAtomicLoad, "sync/atomic.LoadInt64": extAtomicLoad,
		"sync/atomic.LoadUint32": extAtomicLoad, "sync/atomic.LoadUint64": extAtomicLoad, "sync/atomic.LoadUintptr": extAtomicLoad,
		"sync/atomic.LoadPointer": extAtomicLoad,
		"sync/atomic.StoreInt32":  extAtomicStore, "sync/atomic.StoreInt64": extAtomicStore,
		"sync/atomic.StoreUint32": extAtomicStore, "sync/atomic.StoreUint64": extAtomicStore, "sync/atomic.StoreUintptr": extAtomicStore,
		"sync/atomic.StorePointer": extAtomicStore,
		"sync/atomic.SwapInt32":    extAtomicSwap, "sync/atomic.SwapInt64": extAtomicSwap,
		"sync/atomic.SwapUint32": extAtomicSwap, "sync/atomic.SwapUint64": extAtomicSwap, "sync/atomic.SwapPointer": extAtomicSwap,
		"sync/atomic.CompareAndSwapInt32": extAtomicCAS, "sync/atomic.CompareAndSwapInt64": extAtomicCAS,
		"sync/atomic.CompareAndSwapUint32": extAtomicCAS, "sync/atomic.CompareAndSwapUint64": extAtomicCAS,
		"sync/atomic.CompareAndSwapPointer": extAtomicCAS, "sync/atomic.CompareAndSwapUintptr": extAtomicCAS,
		"(*sync/atomic.Value).Load":  extAtomicValueLoad,
		"(*sync/atomic.Value).Store": extAtomicValueStore,

		// ---- fmt / errors ----
		"fmt.Errorf":   extErrorf,
		"fmt.Sprintf":  extSprintf,
		"fmt.Sprint":   extSprint,
		"fmt.Sprintln": extSprint,
		"fmt.Appendf": func(fr *frame, a []value) value {
			s := extSprintf(fr, a[1:])
			return append(a[0].([]value), fr.i.strBytes(s)...)
		},
		"fmt.Fprintf": func(fr *frame, a []value) value {
			return tuple{fr.i.mkInt(types.Int, 0), iface{}}
		},
		"fmt.Printf":  func(fr *frame, a []value) value { return tuple{fr.i.mkInt(types.Int, 0), iface{}} },
		"fmt.Println": func(fr *frame, a []value) value { return tuple{fr.i.mkInt(types.Int, 0), iface{}} },
		"errors.Is":   extErrorsIs,
		"errors.As":   extErrorsAs,
		"errors.Join": extErrorsJoin,

		// ---- internal/bytealg and friends ----
		"internal/bytealg.IndexByte":           extIndexByte,
		"internal/bytealg.IndexByteString":     extIndexByte,
		"internal/bytealg.Equal":               extBytesEqual,
		"bytes.Equal":                          extBytesEqual,
		"internal/bytealg.Count":               extCountByte,
		"internal/bytealg.CountString":         extCountByte,
		"internal/bytealg.MakeNoZero":          func(fr *frame, a []value) value { return fr.i.makeBytes(int(fr.i.concInt(a[0], "MakeNoZero"))) },
		"internal/bytealg.Compare":             extCompare,
		"internal/bytealg.Index":               extIndex,
		"internal/bytealg.IndexString":         extIndex,
		"internal/bytealg.LastIndexByte":       extLastIndexByte,
		"internal/bytealg.LastIndexByteString": extLastIndexByte,
		"internal/stringslite.Index":           extIndex,
		"strings.Index":                        extIndex,
		"strings.Compare":                      extCompare,
		"bytes.Compare":                        extCompare,
		"internal/race.Enabled":                nil,

		"internal/abi.NoEscape": func(fr *frame, a []value) value { return a[0] },
		"internal/abi.Escape":   nil,
		// ---- runtime ----
		"runtime.GOMAXPROCS":                        func(fr *frame, a []value) value { return fr.i.mkInt(types.Int, 16) },
		"runtime.NumCPU":                            func(fr *frame, a []value) value { return fr.i.mkInt(types.Int, 16) },
		"runtime.Gosched":                           func(fr *frame, a []value) value { fr.i.yield("Gosched"); return nil },
		"runtime.SetFinalizer":                      func(fr *frame, a []value) value { return nil },
		"runtime.KeepAlive":                         func(fr *frame, a []value) value { return nil },
		"runtime.GC":                                func(fr *frame, a []value) value { return nil },
		"runtime/debug.FreeOSMemory":                func(fr *frame, a []value) value { return nil },
		"internal/godebug.(*Setting).Value":         func(fr *frame, a []value) value { return "" },
		"internal/godebug.(*Setting).IncNonDefault": func(fr *frame, a []value) value { return nil },

		// ---- time ----
		"time.runtimeNano": func(fr *frame, a []value) value { return fr.i.mkInt(types.Int64, 1000) },
		"time.runtimeNow": func(fr *frame, a []value) value {
			return tuple{fr.i.mkInt(types.Int64, 1790000000), fr.i.mkInt(types.Int32, 0), fr.i.mkInt(types.Int64, 1000)}
		},
		"time.now": func(fr *frame, a []value) value {
			return tuple{fr.i.mkInt(types.Int64, 1790000000), fr.i.mkInt(types.Int32, 0), fr.i.mkInt(types.Int64, 1000)}
		},
		"runtime.GOROOT": func(fr *frame, a []value) value { return "" },
		"syscall.Getenv": func(fr *frame, a []value) value { return tuple{"", fr.i.mkBool(false)} },
		"os.Getpagesize": func(fr *frame, a []value) value { return fr.i.mkInt(types.Int, 4096) },
		"os.Getenv":      func(fr *frame, a []value) value { return "" },
		"os.LookupEnv":   func(fr *frame, a []value) value { return tuple{"", fr.i.mkBool(false)} },
		"time.Now": func(fr *frame, a []value) value {
			i := fr.i
			i.clock++
			return structure{i.mkInt(types.Uint64, 0), i.mkInt(types.Int64, 63000000000+i.clock), (*value)(nil)}
		},
		"time.Since":         func(fr *frame, a []value) value { return fr.i.mkInt(types.Int64, 1) },
		"time.Until":         func(fr *frame, a []value) value { return fr.i.mkInt(types.Int64, 1) },
		"time.Sleep":         func(fr *frame, a []value) value { fr.i.yield("sleep"); return nil },
		"time.AfterFunc":     extAfterFunc,
		"(*time.Timer).Stop": extTimerStop,

		// ---- sort ----
		"sort.Slice":       extSortSlice,
		"sort.SliceStable": extSortSlice,

		// ---- regexp ----
		"regexp.MustCompile": func(fr *frame, a []value) value {
			re := regexp.MustCompile(fr.i.argStr(a[0], "regexp"))
			var v value = &native{v: re, desc: "regexp"}
			return &v
		},
		"regexp.Compile": func(fr *frame, a []value) value {
			re, err := regexp.Compile(fr.i.argStr(a[0], "regexp"))
			if err != nil {
				return tuple{(*value)(nil), fr.i.newErrorString(err.Error())}
			}
			var v value = &native{v: re, desc: "regexp"}
			return tuple{&v, iface{}}
		},

		// ---- pure string helpers called natively when concrete ----
		"path.Clean":          pureStr1(path.Clean),
		"path/filepath.Clean": pureStr1(filepath.Clean),
		"path.Base":           pureStr1(path.Base),
		"path.Dir":            pureStr1(path.Dir),
		"path/filepath.Base":  pureStr1(filepath.Base),
		"path/filepath.Dir":   pureStr1(filepath.Dir),
		"strings.ToLower":     pureStr1(strings.ToLower),
		"strings.ToUpper":     pureStr1(strings.ToUpper),
		"strings.TrimSpace":   pureStr1(strings.TrimSpace),
		"strconv.Itoa": func(fr *frame, a []value) value {
			x := a[0].(ival)
			if !x.t.IsConst() {
				return nil2(fr, "strconv.Itoa")
			}
			return strconv.Itoa(int(x.i64()))
		},
		"path/filepath.Join": func(fr *frame, a []value) value {
			var parts []string
			for _, e := range a[0].([]value) {
				s, ok := concreteString(e)
				if !ok {
					fr.i.unsupported("filepath.Join with symbolic element")
				}
				parts = append(parts, s)
			}
			return filepath.Join(parts...)
		},
		"path.Join": func(fr *frame, a []value) value {
			var parts []string
			for _, e := range a[0].([]value) {
				s, ok := concreteString(e)
				if !ok {
					return fallthroughInterp(fr, a)
				}
				parts = append(parts, s)
			}
			return path.Join(parts...)
		},
	}
	delete(externals, "internal/race.Enabled")
	delete(externals, "internal/abi.Escape")
}

// fallThrough marker: intrinsics that only apply to concrete arguments return this to run the real body.
type fallThrough struct{}

func fallthroughInterp(fr *frame, a []value) value { return fallThrough{} }

func nil2(fr *frame, what string) value { return fallThrough{} }

func pureStr1(f func(string) string) externalFn {
	return func(fr *frame, a []value) value {
		s, ok := concreteString(a[0])
		if !ok {
			return fallThrough{}
		}
		return f(s)
	}
}

func (i *interpreter) makeBytes(n int) []value {
	r := make([]value, n)
	z := i.mkByte(0)
	for j := range r {
		r[j] = z
	}
	return r
}

// hexFixed renders a non-negative integer as n lower-case hex digits (symbolic digits allowed).
func (i *interpreter) hexFixed(x ival, n int) value {
	c := i.ctx
	t := i.as64(x)
	bs := make([]value, n)
	for k := 0; k < n; k++ {
		shift := uint64(4 * (n - 1 - k))
		nib := c.Extract(c.Bin(OpLShr, t, c.BV(shift, 64)), 3, 0)
		nib8 := c.ZExt(nib, 8)
		ch := c.Ite(c.Cmp(OpUlt, nib8, c.BV(10, 8)), c.Bin(OpAdd, nib8, c.BV('0', 8)), c.Bin(OpAdd, nib8, c.BV('a'-10, 8)))
		bs[k] = ival{ch, types.Uint8}
	}
	return mkStr(bs)
}

// ---- sync -----------------------------------------------------------------------------------------------

func extLock(fr *frame, a []value) value {
	i := fr.i
	st := i.sync(a[0])
	i.yield("Lock")
	i.block(func() bool { return !st.locked && st.readers == 0 }, "Mutex.Lock")
	st.locked, st.owner = true, i.cur.id
	return nil
}

func extTryLock(fr *frame, a []value) value {
	i := fr.i
	st := i.sync(a[0])
	if st.locked || st.readers > 0 {
		return i.mkBool(false)
	}
	st.locked, st.owner = true, i.cur.id
	return i.mkBool(true)
}

func extUnlock(fr *frame, a []value) value {
	i := fr.i
	st := i.sync(a[0])
	if !st.locked {
		i.ex.end(oPanic, "fatal error: sync: unlock of unlocked mutex")
	}
	st.locked = false
	i.yield("Unlock")
	return nil
}

func extRLock(fr *frame, a []value) value {
	i := fr.i
	st := i.sync(a[0])
	i.yield("RLock")
	i.block(func() bool { return !st.locked }, "RWMutex.RLock")
	st.readers++
	return nil
}

func extRUnlock(fr *frame, a []value) value {
	i := fr.i
	st := i.sync(a[0])
	if st.readers <= 0 {
		i.ex.end(oPanic, "fatal error: sync: RUnlock of unlocked RWMutex")
	}
	st.readers--
	i.yield("RUnlock")
	return nil
}

func extOnceDo(fr *frame, a []value) value {
	i := fr.i
	st := i.sync(a[0])
	if st.onceDone {
		return nil
	}
	// Go marks the Once done even if f panics.
	st.onceDone = true
	i.call(fr, fr.fn.Pos(), a[1], nil)
	return nil
}

func extWgAdd(fr *frame, a []value) value {
	i := fr.i
	st := i.sync(a[0])
	st.count += i.concInt(a[1], "WaitGroup delta")
	if st.count < 0 {
		panic(targetPanic{v: iface{i.runtimeErrorString, "sync: negative WaitGroup counter"}})
	}
	return nil
}

func extWgWait(fr *frame, a []value) value {
	i := fr.i
	st := i.sync(a[0])
	i.yield("WaitGroup.Wait")
	i.block(func() bool { return st.count == 0 }, "WaitGroup.Wait")
	return nil
}

// sync.Cond{noCopy, L Locker, ...}: field 1 is L.
func (i *interpreter) condLocker(p value) iface {
	s := (*i.deref(p)).(structure)
	return s[1].(iface)
}

func (i *interpreter) callMethod(fr *frame, recv iface, name string, args ...value) value {
	if recv.t == nil {
		i.throw("invalid memory address or nil pointer dereference")
	}
	ms := i.prog.MethodSets.MethodSet(recv.t)
	for k := 0; k < ms.Len(); k++ {
		sel := ms.At(k)
		if sel.Obj().Name() == name {
			f := i.prog.MethodValue(sel)
			return i.call(fr, fr.fn.Pos(), f, append([]value{recv.v}, args...))
		}
	}
	panic(fmt.Sprintf("callMethod: %s has no method %s", recv.t, name))
}

func (i *interpreter) hasMethod(t types.Type, name string) *ssa.Function {
	if t == nil {
		return nil
	}
	ms := i.prog.MethodSets.MethodSet(t)
	for k := 0; k < ms.Len(); k++ {
		sel := ms.At(k)
		if sel.Obj().Name() == name {
			return i.prog.MethodValue(sel)
		}
	}
	return nil
}

func extCondWait(fr *frame, a []value) value {
	i := fr.i
	st := i.sync(a[0])
	L := i.condLocker(a[0])
	w := &condWaiter{}
	st.waiters = append(st.waiters, w)
	i.callMethod(fr, L, "Unlock")
	i.block(func() bool { return w.signalled }, "Cond.Wait")
	i.callMethod(fr, L, "Lock")
	return nil
}

func extCondSignal(fr *frame, a []value) value {
	st := fr.i.sync(a[0])
	if len(st.waiters) > 0 {
		st.waiters[0].signalled = true
		st.waiters = st.waiters[1:]
	}
	return nil
}

func extCondBroadcast(fr *frame, a []value) value {
	st := fr.i.sync(a[0])
	for _, w := range st.waiters {
		w.signalled = true
	}
	st.waiters = nil
	return nil
}

// sync.Pool model: Get returns the most recently Put object if any (exposes reuse-while-held), else New().
func extPoolGet(fr *frame, a []value) value {
	i := fr.i
	st := i.sync(a[0])
	if n := len(st.pool); n > 0 {
		v := st.pool[n-1]
		st.pool = st.pool[:n-1]
		return v
	}
	s := (*i.deref(a[0])).(structure)
	newFn := s[len(s)-1] // New func() any is the last field
	switch f := newFn.(type) {
	case *ssa.Function:
		if f == nil {
			return iface{}
		}
	}
	return i.call(fr, fr.fn.Pos(), newFn, nil)
}

func extPoolPut(fr *frame, a []value) value {
	st := fr.i.sync(a[0])
	st.pool = append(st.pool, a[1])
	return nil
}

var anyType = types.NewInterfaceType(nil, nil)

func (i *interpreter) syncMap(p value) *smap {
	st := i.sync(p)
	if st.m == nil {
		st.m = makeMap(anyType)
	}
	return st.m
}

func extSyncMapLoad(fr *frame, a []value) value {
	i := fr.i
	v, ok := i.mapLookup(i.syncMap(a[0]), a[1])
	if !ok {
		return tuple{iface{}, i.mkBool(false)}
	}
	return tuple{v, i.mkBool(true)}
}

func extSyncMapStore(fr *frame, a []value) value {
	fr.i.mapInsert(fr.i.syncMap(a[0]), a[1], a[2])
	return nil
}

func extSyncMapLoadOrStore(fr *frame, a []value) value {
	i := fr.i
	m := i.syncMap(a[0])
	if v, ok := i.mapLookup(m, a[1]); ok {
		return tuple{v, i.mkBool(true)}
	}
	i.mapInsert(m, a[1], a[2])
	return tuple{a[2], i.mkBool(false)}
}

func extSyncMapLoadAndDelete(fr *frame, a []value) value {
	i := fr.i
	m := i.syncMap(a[0])
	v, ok := i.mapLookup(m, a[1])
	if !ok {
		return tuple{iface{}, i.mkBool(false)}
	}
	i.mapDelete(m, a[1])
	return tuple{v, i.mkBool(true)}
}

func extSyncMapRange(fr *frame, a []value) value {
	i := fr.i
	m := i.syncMap(a[0])
	keys := append([]value(nil), m.keys...)
	vals := append([]value(nil), m.vals...)
	for j := range keys {
		r := i.call(fr, fr.fn.Pos(), a[1], []value{keys[j], vals[j]})
		if !i.ex.Branch(r.(ival).t) {
			break
		}
	}
	return nil
}

// ---- atomics --------------------------------------------------------------------------------------------

func extAtomicAdd(fr *frame, a []value) value {
	i := fr.i
	i.yield("atomic")
	p := i.deref(a[0])
	old := (*p).(ival)
	nv := ival{i.ctx.Bin(OpAdd, old.t, a[1].(ival).t), old.k}
	*p = nv
	return nv
}

func extAtomicLoad(fr *frame, a []value) value {
	fr.i.yield("atomic")
	return *fr.i.deref(a[0])
}

func extAtomicStore(fr *frame, a []value) value {
	fr.i.yield("atomic")
	*fr.i.deref(a[0]) = a[1]
	return nil
}

func extAtomicSwap(fr *frame, a []value) value {
	fr.i.yield("atomic")
	p := fr.i.deref(a[0])
	old := *p
	*p = a[1]
	return old
}

func extAtomicCAS(fr *frame, a []value) value {
	i := fr.i
	i.yield("atomic")
	p := i.deref(a[0])
	var eq *Term
	switch old := (*p).(type) {
	case ival:
		eq = i.ctx.Cmp(OpEq, old.t, a[1].(ival).t)
	default:
		eq = i.equalsT(nil, *p, a[1])
	}
	if i.ex.Branch(eq) {
		*p = a[2]
		return i.mkBool(true)
	}
	return i.mkBool(false)
}

func extAtomicValueLoad(fr *frame, a []value) value {
	st := fr.i.sync(a[0])
	if !st.avSet {
		return iface{}
	}
	return st.av
}

func extAtomicValueStore(fr *frame, a []value) value {
	st := fr.i.sync(a[0])
	if a[1].(iface).t == nil {
		panic(targetPanic{v: iface{fr.i.runtimeErrorString, "sync/atomic: store of nil value into Value"}})
	}
	st.av, st.avSet = a[1], true
	return nil
}

// ---- timers ---------------------------------------------------------------------------------------------

type timerState struct {
	fn     value
	active bool
	cell   *value
}

func extAfterFunc(fr *frame, a []value) value {
	i := fr.i
	ts := &timerState{fn: a[1], active: true}
	i.timers = append(i.timers, ts)
	// *time.Timer: an opaque cell that identifies the timer
	var v value = &native{v: ts, desc: "timer"}
	ts.cell = &v
	return &v
}

func extTimerStop(fr *frame, a []value) value {
	i := fr.i
	p, _ := a[0].(*value)
	if p == nil {
		i.throw("invalid memory address or nil pointer dereference")
	}
	if st, isStruct := (*p).(structure); isStruct {
		// created by time.NewTimer: field 0 is the channel
		if ch, ok := st[0].(*schan); ok {
			was := !ch.fired
			ch.fired = true
			return i.mkBool(was)
		}
	}
	n, ok := (*p).(*native)
	if !ok {
		i.unsupported("Stop on a timer not created by time.AfterFunc / time.NewTimer")
	}
	ts := n.v.(*timerState)
	was := ts.active
	ts.active = false
	return i.mkBool(was)
}

// ---- sort.Slice --------------------------------------------------------------------------------------------

func extSortSlice(fr *frame, a []value) value {
	i := fr.i
	s, _ := a[0].(iface).v.([]value)
	less := a[1]
	// insertion sort (stable); comparisons may fork
	for x := 1; x < len(s); x++ {
		for y := x; y > 0; y-- {
			r := i.call(fr, fr.fn.Pos(), less, []value{i.mkInt(types.Int, int64(y)), i.mkInt(types.Int, int64(y-1))})
			if !i.ex.Branch(r.(ival).t) {
				break
			}
			s[y], s[y-1] = s[y-1], s[y]
		}
	}
	return nil
}

// ---- bytealg --------------------------------------------------------------------------------------------

func (i *interpreter) seqBytes(v value) []value {
	switch x := v.(type) {
	case string, sstr:
		return i.strBytes(x)
	case []value:
		return x
	}
	panic(fmt.Sprintf("seqBytes: %T", v))
}

func extIndexByte(fr *frame, a []value) value {
	i := fr.i
	c := i.ctx
	bs := i.seqBytes(a[0])
	ch := a[1].(ival).t
	res := c.BV(^uint64(0), 64)
	for j := len(bs) - 1; j >= 0; j-- {
		res = c.Ite(c.Cmp(OpEq, bs[j].(ival).t, ch), c.BV(uint64(j), 64), res)
	}
	return ival{res, types.Int}
}

func extLastIndexByte(fr *frame, a []value) value {
	i := fr.i
	c := i.ctx
	bs := i.seqBytes(a[0])
	ch := a[1].(ival).t
	res := c.BV(^uint64(0), 64)
	for j := 0; j < len(bs); j++ {
		res = c.Ite(c.Cmp(OpEq, bs[j].(ival).t, ch), c.BV(uint64(j), 64), res)
	}
	return ival{res, types.Int}
}

func extCountByte(fr *frame, a []value) value {
	i := fr.i
	c := i.ctx
	bs := i.seqBytes(a[0])
	ch := a[1].(ival).t
	res := c.BV(0, 64)
	for j := range bs {
		res = c.Bin(OpAdd, res, c.Ite(c.Cmp(OpEq, bs[j].(ival).t, ch), c.BV(1, 64), c.BV(0, 64)))
	}
	return ival{res, types.Int}
}

func extBytesEqual(fr *frame, a []value) value {
	i := fr.i
	c := i.ctx
	x, y := i.seqBytes(a[0]), i.seqBytes(a[1])
	if len(x) != len(y) {
		return i.mkBool(false)
	}
	r := c.True()
	for j := range x {
		r = c.And(r, c.Cmp(OpEq, x[j].(ival).t, y[j].(ival).t))
	}
	return ival{r, types.Bool}
}

func extCompare(fr *frame, a []value) value {
	i := fr.i
	c := i.ctx
	x, y := mkStr(i.seqBytes(a[0])), mkStr(i.seqBytes(a[1]))
	lt := i.strLess(x, y)
	gt := i.strLess(y, x)
	return ival{c.Ite(lt, c.BV(^uint64(0), 64), c.Ite(gt, c.BV(1, 64), c.BV(0, 64))), types.Int}
}

func extIndex(fr *frame, a []value) value {
	i := fr.i
	c := i.ctx
	x, y := i.seqBytes(a[0]), i.seqBytes(a[1])
	res := c.BV(^uint64(0), 64)
	for j := len(x) - len(y); j >= 0; j-- {
		m := c.True()
		for k := range y {
			m = c.And(m, c.Cmp(OpEq, x[j+k].(ival).t, y[k].(ival).t))
		}
		res = c.Ite(m, c.BV(uint64(j), 64), res)
	}
	return ival{res, types.Int}
}

// ---- strconv summaries --------------------------------------------------------------------------------------
// strconv.ParseInt / ParseUint on a symbolic string fork per character in the real implementation (4^n paths for
// n hex digits). For base 16 (<= 16 digits) and base 10 (<= 18 digits), bitSize 64, they are summarised without
// forking on digits: one fork on the sign character class, one on "all characters are digits", one on range.
// The summary is validated against the real functions by the engine self-test. Concrete strings run the real code.

func (i *interpreter) numError(fn string, s value, errGlobal string) value {
	pkg := i.prog.ImportedPackage("strconv")
	g := pkg.Var(errGlobal)
	errV := *i.global(g)
	t := i.pkgType("strconv", "NumError")
	var cell value = structure{fn, s, errV}
	return iface{types.NewPointer(t), &cell}
}

func extParseInt(signedFn bool) externalFn {
	return func(fr *frame, a []value) value {
		i := fr.i
		c := i.ctx
		if _, ok := a[0].(string); ok {
			return fallThrough{}
		}
		bv, ok1 := a[1].(ival)
		sz, ok2 := a[2].(ival)
		if !ok1 || !ok2 || !bv.t.IsConst() || !sz.t.IsConst() || sz.i64() != 64 {
			return fallThrough{}
		}
		base := bv.i64()
		bs := i.strBytes(a[0])
		maxDigits := 16
		if base == 10 {
			maxDigits = 18
		} else if base != 16 {
			return fallThrough{}
		}
		fnName := "ParseUint"
		if signedFn {
			fnName = "ParseInt"
		}
		synErr := func() value {
			return tuple{i.mkInt(map[bool]types.BasicKind{true: types.Int64, false: types.Uint64}[signedFn], 0), i.numError(fnName, a[0], "ErrSyntax")}
		}
		if len(bs) == 0 {
			return synErr()
		}
		neg := false
		digits := bs
		if signedFn {
			b0 := bs[0].(ival).t
			if i.ex.Branch(c.Cmp(OpEq, b0, c.BV('-', 8))) {
				neg = true
				digits = bs[1:]
			} else if i.ex.Branch(c.Cmp(OpEq, b0, c.BV('+', 8))) {
				digits = bs[1:]
			}
		}
		if len(digits) == 0 {
			return synErr()
		}
		if len(digits) > maxDigits {
			return fallThrough{} // would need overflow reasoning: run the real code (may fork heavily)
		}
		valid := c.True()
		val := c.BV(0, 64)
		for _, d := range digits {
			ch := d.(ival).t
			isDigit := c.And(c.Cmp(OpUle, c.BV('0', 8), ch), c.Cmp(OpUle, ch, c.BV('9', 8)))
			dv := c.Bin(OpSub, ch, c.BV('0', 8))
			ok := isDigit
			if base == 16 {
				lower := c.Bin(OpOr, ch, c.BV(0x20, 8))
				isHex := c.And(c.Cmp(OpUle, c.BV('a', 8), lower), c.Cmp(OpUle, lower, c.BV('f', 8)))
				dv = c.Ite(isDigit, dv, c.Bin(OpSub, lower, c.BV('a'-10, 8)))
				ok = c.Or(isDigit, isHex)
			}
			valid = c.And(valid, ok)
			val = c.Bin(OpAdd, c.Bin(OpMul, val, c.BV(uint64(base), 64)), c.ZExt(dv, 64))
		}
		if !i.ex.Branch(valid) {
			return synErr()
		}
		if !signedFn {
			return tuple{ival{val, types.Uint64}, iface{}}
		}
		// range: magnitude must be < 2^63 (or == 2^63 for negative)
		cutoff := c.BV(1<<63, 64)
		if !neg {
			if i.ex.Branch(c.Cmp(OpUle, cutoff, val)) {
				return tuple{i.mkInt(types.Int64, 1<<63-1), i.numError(fnName, a[0], "ErrRange")}
			}
			return tuple{ival{val, types.Int64}, iface{}}
		}
		if i.ex.Branch(c.Cmp(OpUlt, cutoff, val)) {
			return tuple{i.mkInt(types.Int64, -1<<63), i.numError(fnName, a[0], "ErrRange")}
		}
		return tuple{ival{c.Un(OpNeg, val), types.Int64}, iface{}}
	}
}

func init() {
	externals["strconv.ParseInt"] = extParseInt(true)
	externals["strconv.ParseUint"] = extParseInt(false)
}

func init() {
	// SHA-256 of concrete bytes is computed natively (the implementation is assembly); symbolic input is unsupported
	// here: harnesses abstract digests through the go-digest Verifier model instead.
	externals["crypto/sha256.Sum256"] = func(fr *frame, a []value) value {
		i := fr.i
		xs := a[0].([]value)
		b := make([]byte, len(xs))
		for j, e := range xs {
			ev := e.(ival)
			if !ev.t.IsConst() {
				i.unsupported("sha256.Sum256 of symbolic bytes")
			}
			b[j] = byte(ev.t.val)
		}
		sum := sha256.Sum256(b)
		r := make(array, 32)
		for j := range r {
			r[j] = i.mkByte(sum[j])
		}
		return r
	}
}

func init() {
	// go-digest hashing of concrete data is computed natively (sha256/sha512 block functions are assembly).
	fromBytes := func(fr *frame, a []value) value {
		i := fr.i
		alg, _ := concreteString(a[0])
		var data []byte
		switch x := a[1].(type) {
		case string:
			data = []byte(x)
		case []value:
			for _, e := range x {
				ev := e.(ival)
				if !ev.t.IsConst() {
					i.unsupported("digest of symbolic bytes (digests are abstracted by the Verifier model in harnesses)")
				}
				data = append(data, byte(ev.t.val))
			}
		default:
			i.unsupported("digest of a symbolic string")
		}
		switch alg {
		case "sha256":
			return fmt.Sprintf("sha256:%x", sha256.Sum256(data))
		case "sha512":
			return fmt.Sprintf("sha512:%x", sha512.Sum512(data))
		}
		i.unsupported("digest algorithm %q", alg)
		return nil
	}
	externals["(github.com/opencontainers/go-digest.Algorithm).FromBytes"] = fromBytes
	externals["(github.com/opencontainers/go-digest.Algorithm).FromString"] = fromBytes
	externals["crypto/internal/fips140.getIndicator"] = func(fr *frame, a []value) value { return fr.i.mkInt(types.Uint8, 0) }
	externals["crypto/internal/fips140.setIndicator"] = func(fr *frame, a []value) value { return nil }
}

func init() {
	// context.WithValue checks key comparability through reflectlite; build the valueCtx directly.
	externals["context.WithValue"] = func(fr *frame, a []value) value {
		i := fr.i
		parent := a[0].(iface)
		if parent.t == nil {
			panic(targetPanic{v: iface{i.runtimeErrorString, "cannot create context from nil parent"}})
		}
		key := a[1].(iface)
		if key.t == nil {
			panic(targetPanic{v: iface{i.runtimeErrorString, "nil key"}})
		}
		t := i.pkgType("context", "valueCtx")
		var cell value = structure{parent, key, a[2]}
		return iface{types.NewPointer(t), &cell}
	}
}

func init() {
	externals["github.com/containerd/log.WithLogger"] = func(fr *frame, a []value) value { return a[0] }
}

func init() {
	// time.After / time.NewTimer: a channel that receives "at some later time". The engine delivers the tick only
	// when every thread is blocked (then the timer is the only thing that can make progress): timeouts are real but
	// never preempt runnable code.
	externals["time.NewTimer"] = func(fr *frame, a []value) value {
		i := fr.i
		ch := &schan{cap: 1}
		i.afterChans = append(i.afterChans, ch)
		t := i.pkgType("time", "Timer").Underlying().(*types.Struct)
		st := make(structure, t.NumFields())
		for k := range st {
			st[k] = i.zero(t.Field(k).Type())
		}
		st[0] = ch
		var cell value = st
		return &cell
	}
	externals["time.After"] = func(fr *frame, a []value) value {
		i := fr.i
		ch := &schan{cap: 1}
		i.afterChans = append(i.afterChans, ch)
		return ch
	}
}

func renderReport(i *interpreter, v value) string {
	switch x := v.(type) {
	case iface:
		if x.t == nil {
			return "<nil>"
		}
		return renderReport(i, x.v)
	case ival:
		t := x.t
		if !t.IsConst() {
			// a symbolic value pinned by the path condition: ask for its (unique) value
			u, ok := i.pinnedValue(t)
			if !ok {
				return "<not-pinned>"
			}
			t = i.ctx.BV(u, max(t.w, 1))
			if x.k == types.Bool {
				return fmt.Sprint(u != 0)
			}
		}
		if x.k == types.Bool {
			return fmt.Sprint(t.val != 0)
		}
		w, signed := kindInfo(x.k)
		if signed {
			return fmt.Sprint(sext64(t.val, w))
		}
		return fmt.Sprint(t.val)
	case string:
		return fmt.Sprintf("%q", x)
	case sstr:
		b := make([]byte, len(x.b))
		for k, e := range x.b {
			ev := e.(ival)
			if ev.t.IsConst() {
				b[k] = byte(ev.t.val)
			} else {
				u, _ := i.pinnedValue(ev.t)
				b[k] = byte(u)
			}
		}
		return fmt.Sprintf("%q", string(b))
	case []value:
		parts := make([]string, len(x))
		for k, e := range x {
			parts[k] = renderReport(i, e)
		}
		return "[" + strings.Join(parts, " ") + "]"
	}
	return toString(v)
}
