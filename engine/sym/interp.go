// Portions derived from golang.org/x/tools/go/ssa/interp (BSD-style license, The Go Authors).

package sym

import (
	"fmt"
	"go/token"
	"go/types"
	"os"
	"runtime"
	"slices"
	"strings"

	"golang.org/x/tools/go/ssa"
)

type continuation int

const (
	kNext continuation = iota
	kReturn
	kJump
)

// Config holds the bounds of one harness run (all reported in the evidence).
type Config struct {
	MaxSteps      int  // SSA instructions per path
	MaxDepth      int  // symbolic decisions per path
	MaxFrames     int  // call depth (recursion bound)
	ConcLimit     int  // max cases when a symbolic value must be concretised
	MapOrders     bool // explore map iteration orders
	Interleave    bool // explore thread interleavings at visible operations
	SpawnDeferred bool // spawned goroutines run only when the harness says so
	MaxSwitches   int  // context-switch bound in interleaving mode
	Trace         bool
	KnownOpen     map[string]bool // open known-finding ids
	Tier          int             // 0 quick, 1 thorough
}

// interpreter: state of one worker; reset per path.
type interpreter struct {
	prog               *ssa.Program
	ctx                *TermCtx
	ex                 *Exec
	cfg                *Config
	globals            map[*ssa.Global]*value
	inited             map[*ssa.Package]bool
	initDepth          int
	runtimeErrorString types.Type
	replace            map[string]value // function replacements registered by the harness (per path)
	stubs              map[string]bool
	funcs              map[string]bool // functions executed (for the evidence)
	caveats            map[string]bool
	lastPos            token.Pos
	threads            []*thread
	cur                *thread
	fatal              interface{}
	switches           int
	timers             []*timerState
	afterChans         []*schan
	clock              int64
	mutexes            map[*value]*mutexState
	ghost              map[string]value
}

type deferred struct {
	fn    value
	args  []value
	instr *ssa.Defer
	tail  *deferred
}

type frame struct {
	i                *interpreter
	caller           *frame
	fn               *ssa.Function
	block, prevBlock *ssa.BasicBlock
	env              map[ssa.Value]value // dynamic values of SSA variables
	locals           []value
	defers           *deferred
	result           value
	panicking        bool
	panic            interface{}
	phitemps         []value // temporaries for parallel phi assignment
	depth            int
}

func (fr *frame) get(key ssa.Value) value {
	switch key := key.(type) {
	case nil:
		return nil
	case *ssa.Function, *ssa.Builtin:
		return key
	case *ssa.Const:
		return fr.i.constValue(key)
	case *ssa.Global:
		return fr.i.global(key)
	}
	if r, ok := fr.env[key]; ok {
		return r
	}
	panic(fmt.Sprintf("get: no value for %T: %v", key, key.Name()))
}

// global returns the address of a package-level variable, running the package initialiser lazily.
func (i *interpreter) global(g *ssa.Global) *value {
	if r, ok := i.globals[g]; ok {
		return r
	}
	i.ensureInit(g.Pkg)
	if r, ok := i.globals[g]; ok {
		return r
	}
	cell := i.zero(mustDeref(g.Type()))
	i.globals[g] = &cell
	return &cell
}

// packages whose initialisers are never run (their globals read as zero values; functions are modelled).
var noInitPkgs = map[string]bool{
	"os": true, "syscall": true, "runtime": true, "net": true, "reflect": true,
	"sync": true, "internal/poll": true, "os/signal": true, "net/http": true, "log": true,
	"internal/godebug": true, "crypto/rand": true, "math/rand": true, "math/rand/v2": true,
	"internal/cpu": true, "crypto/internal/fips140/sha256": true,
	"google.golang.org/grpc": true, "github.com/sirupsen/logrus": true,
	"github.com/prometheus/client_golang/prometheus": true, "github.com/docker/go-metrics": true,
	"internal/testlog": true, "internal/syscall/unix": true, "golang.org/x/sys/unix": true,
	"unicode": true, "encoding/json": true, "mime": true, "mime/multipart": true, "net/textproto": true,
	"github.com/hanwen/go-fuse/v2/fuse": true, "github.com/hanwen/go-fuse/v2/fs": true,
	"github.com/klauspost/compress/zstd": true, "compress/flate": true, "compress/gzip": false,
	"github.com/containerd/stargz-snapshotter/fs/metrics/common": true,
	"github.com/containerd/stargz-snapshotter/fs/metrics/layer":  true,
}

func (i *interpreter) ensureInit(pkg *ssa.Package) {
	if pkg == nil || i.inited[pkg] {
		return
	}
	i.inited[pkg] = true
	for _, m := range pkg.Members {
		if g, ok := m.(*ssa.Global); ok {
			if _, ok := i.globals[g]; !ok {
				cell := i.zero(mustDeref(g.Type()))
				i.globals[g] = &cell
			}
		}
	}
	if pkg.Pkg.Path() == "os" {
		// package os is modelled, but its exported error values alias io/fs's and are compared by identity
		if fsPkg := i.prog.ImportedPackage("io/fs"); fsPkg != nil {
			for _, n := range []string{"ErrInvalid", "ErrPermission", "ErrExist", "ErrNotExist", "ErrClosed"} {
				if g, src := pkg.Var(n), fsPkg.Var(n); g != nil && src != nil {
					*i.globals[g] = *i.global(src)
				}
			}
		}
		return
	}
	if noInitPkgs[pkg.Pkg.Path()] {
		return
	}
	initFn := pkg.Func("init")
	if initFn == nil {
		return
	}
	pkg.Build()
	i.initDepth++
	defer func() {
		i.initDepth--
		if r := recover(); r != nil {
			if pe, ok := r.(pathEnd); ok && pe.kind == oUnsupported {
				if strings.Contains(pkg.Pkg.Path(), "stargz-snapshotter") {
					// a half-initialised package of the code under test would silently change its behaviour
					panic(pathEnd{oUnsupported, "package initialiser of " + pkg.Pkg.Path() + " is not executable: " + pe.msg})
				}
				i.caveats["partial package init: "+pkg.Pkg.Path()+": "+pe.msg] = true
				return
			}
			panic(r)
		}
	}()
	i.call(nil, token.NoPos, initFn, nil)
	// registration-style initialisers: packages that register themselves into this one
	for _, other := range initAlso[pkg.Pkg.Path()] {
		if op := i.prog.ImportedPackage(other); op != nil {
			i.ensureInit(op)
		}
	}
}

var initAlso = map[string][]string{
	"crypto": {"crypto/sha256", "crypto/sha512"},
}

// runDefer runs a deferred call d. It always returns normally, but may set or clear fr.panic.
func (fr *frame) runDefer(d *deferred) {
	var ok bool
	defer func() {
		if !ok {
			r := recover()
			if pe, isEnd := r.(pathEnd); isEnd {
				panic(pe)
			}
			if cp, isCrash := r.(crashPanic); isCrash {
				panic(cp)
			}
			if _, isErr := r.(runtime.Error); isErr {
				panic(r)
			}
			// Deferred call created a new state of panic.
			fr.panicking = true
			fr.panic = r
		}
	}()
	fr.i.call(fr, d.instr.Pos(), d.fn, d.args)
	ok = true
}

// runDefers executes fr's deferred function calls in LIFO order.
func (fr *frame) runDefers() {
	for d := fr.defers; d != nil; d = d.tail {
		fr.runDefer(d)
	}
	fr.defers = nil
	if fr.panicking {
		panic(fr.panic) // new panic, or still panicking
	}
}

func (i *interpreter) lookupMethod(typ types.Type, meth *types.Func) *ssa.Function {
	return i.prog.LookupMethod(typ, meth.Pkg(), meth.Name())
}

func (i *interpreter) posString(p token.Pos) string {
	if p == token.NoPos {
		return "?"
	}
	pos := i.prog.Fset.Position(p)
	return fmt.Sprintf("%s:%d", pos.Filename, pos.Line)
}

// visitInstr interprets a single ssa.Instruction within the activation record frame.
func (i *interpreter) visitInstr(fr *frame, instr ssa.Instruction) continuation {
	i.ex.steps++
	if i.ex.steps > i.ex.maxSteps {
		i.ex.end(oBound, "step budget %d exceeded in %s", i.ex.maxSteps, fr.fn)
	}
	if p := instr.Pos(); p != token.NoPos {
		i.lastPos = p
	}
	switch instr := instr.(type) {
	case *ssa.DebugRef:
		// no-op

	case *ssa.UnOp:
		fr.env[instr] = i.unop(fr, instr, fr.get(instr.X))

	case *ssa.BinOp:
		fr.env[instr] = i.binop(instr.Op, instr.X.Type(), fr.get(instr.X), fr.get(instr.Y))

	case *ssa.Call:
		fn, args := i.prepareCall(fr, &instr.Call)
		fr.env[instr] = i.call(fr, instr.Pos(), fn, args)

	case *ssa.ChangeInterface:
		fr.env[instr] = fr.get(instr.X)

	case *ssa.ChangeType:
		fr.env[instr] = fr.get(instr.X) // (can't fail)

	case *ssa.Convert:
		fr.env[instr] = i.conv(instr.Type(), instr.X.Type(), fr.get(instr.X))

	case *ssa.MultiConvert:
		fr.env[instr] = i.conv(instr.Type(), instr.X.Type(), fr.get(instr.X))

	case *ssa.SliceToArrayPointer:
		fr.env[instr] = i.sliceToArrayPointer(instr.Type(), instr.X.Type(), fr.get(instr.X))

	case *ssa.MakeInterface:
		fr.env[instr] = iface{t: instr.X.Type(), v: fr.get(instr.X)}

	case *ssa.Extract:
		fr.env[instr] = fr.get(instr.Tuple).(tuple)[instr.Index]

	case *ssa.Slice:
		fr.env[instr] = i.slice(fr.get(instr.X), fr.get(instr.Low), fr.get(instr.High), fr.get(instr.Max))

	case *ssa.Return:
		switch len(instr.Results) {
		case 0:
		case 1:
			fr.result = fr.get(instr.Results[0])
		default:
			var res []value
			for _, r := range instr.Results {
				res = append(res, fr.get(r))
			}
			fr.result = tuple(res)
		}
		fr.block = nil
		return kReturn

	case *ssa.RunDefers:
		fr.runDefers()

	case *ssa.Panic:
		panic(targetPanic{v: fr.get(instr.X)})

	case *ssa.Send:
		i.chanSend(fr, fr.get(instr.Chan).(*schan), fr.get(instr.X))

	case *ssa.Store:
		i.storePtr(mustDeref(instr.Addr.Type()), fr.get(instr.Addr), fr.get(instr.Val))

	case *ssa.If:
		cond := fr.get(instr.Cond).(ival)
		succ := 1
		if i.ex.Branch(cond.t) {
			succ = 0
		}
		fr.prevBlock, fr.block = fr.block, fr.block.Succs[succ]
		return kJump

	case *ssa.Jump:
		fr.prevBlock, fr.block = fr.block, fr.block.Succs[0]
		return kJump

	case *ssa.Defer:
		fn, args := i.prepareCall(fr, &instr.Call)
		defers := &fr.defers
		if into := fr.get(instr.DeferStack); into != nil {
			defers = into.(**deferred)
		}
		*defers = &deferred{
			fn:    fn,
			args:  args,
			instr: instr,
			tail:  *defers,
		}

	case *ssa.Go:
		fn, args := i.prepareCall(fr, &instr.Call)
		i.spawn(fr, instr.Pos(), fn, args)

	case *ssa.MakeChan:
		n := i.concInt(fr.get(instr.Size), "channel size")
		fr.env[instr] = &schan{cap: int(n), elemT: instr.Type().Underlying().(*types.Chan).Elem()}

	case *ssa.Alloc:
		var addr *value
		if instr.Heap {
			addr = new(value)
			fr.env[instr] = addr
		} else {
			addr = fr.env[instr].(*value)
		}
		*addr = i.zero(mustDeref(instr.Type()))

	case *ssa.MakeSlice:
		fr.env[instr] = i.makeSlice(instr, fr.get(instr.Len), fr.get(instr.Cap))

	case *ssa.MakeMap:
		fr.env[instr] = makeMap(instr.Type().Underlying().(*types.Map).Key())

	case *ssa.Range:
		fr.env[instr] = i.rangeIter(fr.get(instr.X), instr.X.Type())

	case *ssa.Next:
		fr.env[instr] = fr.get(instr.Iter).(iter).next(i)

	case *ssa.FieldAddr:
		p := i.deref(fr.get(instr.X))
		fr.env[instr] = &(*p).(structure)[instr.Field]

	case *ssa.Field:
		fr.env[instr] = copyVal(fr.get(instr.X).(structure)[instr.Field])

	case *ssa.IndexAddr:
		x := fr.get(instr.X)
		idx := fr.get(instr.Index)
		var elems []value
		switch x := x.(type) {
		case []value:
			elems = x
		case *value: // *array
			if x == nil {
				i.throw("invalid memory address or nil pointer dereference")
			}
			elems = (*x).(array)
		default:
			panic(fmt.Sprintf("unexpected x type in IndexAddr: %T", x))
		}
		t := i.checkIndex(idx, len(elems), "index")
		if t.IsConst() {
			fr.env[instr] = &elems[t.val]
		} else {
			fr.env[instr] = &symptr{base: elems, idx: t}
		}

	case *ssa.Index:
		x := fr.get(instr.X)
		idx := fr.get(instr.Index)
		switch x := x.(type) {
		case array:
			fr.env[instr] = i.indexValues(x, idx, "array index")
		case string, sstr:
			fr.env[instr] = i.indexValues(i.strBytes(x), idx, "string index")
		default:
			panic(fmt.Sprintf("unexpected x type in Index: %T", x))
		}

	case *ssa.Lookup:
		fr.env[instr] = i.lookup(instr, fr.get(instr.X), fr.get(instr.Index))

	case *ssa.MapUpdate:
		m := fr.get(instr.Map).(*smap)
		i.mapInsert(m, fr.get(instr.Key), copyVal(fr.get(instr.Value)))

	case *ssa.TypeAssert:
		fr.env[instr] = i.typeAssert(instr, fr.get(instr.X).(iface))

	case *ssa.MakeClosure:
		var bindings []value
		for _, binding := range instr.Bindings {
			bindings = append(bindings, fr.get(binding))
		}
		fr.env[instr] = &closure{instr.Fn.(*ssa.Function), bindings}

	case *ssa.Phi:
		panic("unreachable: phis are processed at block entry")

	case *ssa.Select:
		fr.env[instr] = i.selectStmt(fr, instr)

	default:
		panic(fmt.Sprintf("unexpected instruction: %T", instr))
	}
	return kNext
}

func (i *interpreter) makeSlice(instr *ssa.MakeSlice, lenV, capV value) value {
	c := i.ctx
	tElt := instr.Type().Underlying().(*types.Slice).Elem()
	lt, ct := i.as64(lenV), i.as64(capV)
	esz := i.sizeof(tElt)
	if esz < 1 {
		esz = 1
	}
	maxElems := uint64(1<<48) / uint64(esz)
	ok := c.And(c.Cmp(OpSle, c.BV(0, 64), lt), c.And(c.Cmp(OpSle, lt, ct), c.Cmp(OpSle, ct, c.BV(maxElems, 64))))
	if !i.ex.Branch(ok) {
		i.throw("makeslice: len or cap out of range")
	}
	n := i.ex.Concretize(ct, i.cfg.ConcLimit, "make() capacity")
	if n > 1<<24 {
		i.ex.end(oBound, "make() of %d elements exceeds the engine's allocation bound", n)
	}
	l := i.ex.Concretize(lt, i.cfg.ConcLimit, "make() length")
	s := make([]value, n)
	for j := range s {
		s[j] = i.zero(tElt)
	}
	return s[:l]
}

var stdSizes = types.SizesFor("gc", "amd64")

func (i *interpreter) sizeof(t types.Type) int64 {
	defer func() { recover() }()
	return stdSizes.Sizeof(t)
}

// prepareCall determines the function value and argument values for a function call.
func (i *interpreter) prepareCall(fr *frame, call *ssa.CallCommon) (fn value, args []value) {
	v := fr.get(call.Value)
	if call.Method == nil {
		fn = v
	} else {
		recv := v.(iface)
		if recv.t == nil {
			i.throw("invalid memory address or nil pointer dereference (method call on nil interface)")
		}
		if f := i.lookupMethod(recv.t, call.Method); f == nil {
			panic(fmt.Sprintf("method set for dynamic type %v does not contain %s", recv.t, call.Method))
		} else {
			fn = f
		}
		args = append(args, recv.v)
	}
	for _, arg := range call.Args {
		args = append(args, copyVal(fr.get(arg)))
	}
	return
}

// call interprets a call to a function (function, builtin or closure) fn with arguments args.
func (i *interpreter) call(caller *frame, callpos token.Pos, fn value, args []value) value {
	switch fn := fn.(type) {
	case *ssa.Function:
		if fn == nil {
			i.throw("invalid memory address or nil pointer dereference (call of nil func)")
		}
		return i.callSSA(caller, callpos, fn, args, nil)
	case *closure:
		return i.callSSA(caller, callpos, fn.Fn, args, fn.Env)
	case *ssa.Builtin:
		return i.callBuiltin(caller, callpos, fn, args)
	}
	panic(fmt.Sprintf("cannot call %T", fn))
}

// callSSA interprets a call to function fn with arguments args and lexical environment env.
func (i *interpreter) callSSA(caller *frame, callpos token.Pos, fn *ssa.Function, args []value, env []value) value {
	fr := &frame{
		i:      i,
		caller: caller,
		fn:     fn,
	}
	if caller != nil {
		fr.depth = caller.depth + 1
	}
	if fr.depth > i.ex.maxFrames {
		i.ex.end(oBound, "call depth %d exceeded in %s", i.ex.maxFrames, fn)
	}
	name := fn.String()
	if fn.Parent() == nil {
		if rep, ok := i.replace[name]; ok && (caller == nil || !sameOrigin(caller.fn, rep)) {
			return i.call(caller, callpos, rep, args)
		}
		if fn.Synthetic == "package initializer" && i.initDepth > 0 && caller != nil && caller.fn.Synthetic == "package initializer" {
			// imported package initialisers are run lazily on first access to their globals
			return nil
		}
		if ext := intrinsicFor(fn, name); ext != nil {
			r := ext(fr, args)
			if _, ft := r.(fallThrough); !ft {
				return r
			}
		}
		if i.stubs[name] {
			return i.zero(fn.Signature.Results())
		}
	}
	// Packages of dependencies are built on first use. Build is a sync.Once: always go through it before looking at
	// fn.Blocks, so that a worker never interprets a function another worker is still building.
	if fn.Pkg != nil {
		fn.Pkg.Build()
	} else if o := fn.Origin(); o != nil && o.Pkg != nil {
		o.Pkg.Build()
	} else if p := fn.Parent(); p != nil && p.Pkg != nil {
		p.Pkg.Build()
	}
	if fn.Blocks == nil {
		i.unsupported("no code for function: %s", name)
	}
	if fn.TypeParams().Len() > 0 && len(fn.TypeArgs()) == 0 {
		i.unsupported("generic function body not instantiated: %s", name)
	}
	if i.cfg.Trace {
		fmt.Fprintf(os.Stderr, "%s-> %s\n", strings.Repeat(" ", fr.depth), name)
	}
	if fn.Pkg != nil || fn.Parent() != nil {
		i.funcs[name] = true
	}

	fr.env = make(map[ssa.Value]value, 16)
	fr.block = fn.Blocks[0]
	fr.locals = make([]value, len(fn.Locals))
	for j, l := range fn.Locals {
		fr.locals[j] = i.zero(mustDeref(l.Type()))
		fr.env[l] = &fr.locals[j]
	}
	for j, p := range fn.Params {
		fr.env[p] = args[j]
	}
	for j, fv := range fn.FreeVars {
		fr.env[fv] = env[j]
	}
	th := i.cur
	prev := th.curFrame
	th.curFrame = fr
	defer func() { th.curFrame = prev }()
	for fr.block != nil {
		i.runFrame(fr)
	}
	if fr.result == nil && fn.Signature.Results().Len() > 0 {
		return i.zero(fn.Signature.Results()) // recovered panic in a function without named results
	}
	return fr.result
}

func sameOrigin(f *ssa.Function, rep value) bool {
	switch r := rep.(type) {
	case *ssa.Function:
		return f == r
	case *closure:
		return f == r.Fn
	}
	return false
}

// runFrame executes SSA instructions starting at fr.block and continuing until a return, a panic, or a
// recovered panic.
func (i *interpreter) runFrame(fr *frame) {
	defer func() {
		if fr.block == nil {
			return // normal return
		}
		r := recover()
		switch r := r.(type) {
		case pathEnd:
			panic(r) // path termination: never runs target defers
		case threadKill:
			panic(r)
		case crashPanic:
			panic(r) // simulated process death: no deferred call of the code under test runs
		case targetPanic:
			if r.info == nil {
				r.info = &panicInfo{stack: i.stackString(), pos: i.posString(i.lastPos)}
			}
			fr.panicking = true
			fr.panic = r
			fr.runDefers()
			fr.block = fr.fn.Recover
			return
		case nil:
			return
		default:
			// internal error of the engine (including host runtime errors): do not disguise it as a target panic
			if _, ok := r.(engineError); ok {
				panic(r)
			}
			buf := make([]byte, 4096)
			buf = buf[:runtime.Stack(buf, false)]
			panic(engineError{fmt.Sprintf("%v in %s at %s\n%s", r, fr.fn, i.posString(i.lastPos), buf)})
		}
	}()

	for {
		nonPhis := executePhis(fr)
		for _, instr := range nonPhis {
			if i.visitInstr(fr, instr) == kReturn {
				return
			}
		}
	}
}

type engineError struct{ msg string }

type crashPanic struct{}

// executePhis executes the phi-nodes at the start of the current block and returns the non-phi instructions.
func executePhis(fr *frame) []ssa.Instruction {
	firstNonPhi := -1
	for i, instr := range fr.block.Instrs {
		if _, ok := instr.(*ssa.Phi); !ok {
			firstNonPhi = i
			break
		}
	}
	nonPhis := fr.block.Instrs[firstNonPhi:]
	if firstNonPhi > 0 {
		phis := fr.block.Instrs[:firstNonPhi]
		predIndex := slices.Index(fr.block.Preds, fr.prevBlock)
		fr.phitemps = fr.phitemps[:0]
		for _, phi := range phis {
			phi := phi.(*ssa.Phi)
			fr.phitemps = append(fr.phitemps, fr.get(phi.Edges[predIndex]))
		}
		for i, phi := range phis {
			fr.env[phi.(*ssa.Phi)] = fr.phitemps[i]
		}
	}
	return nonPhis
}

// doRecover implements the recover() built-in.
func doRecover(caller *frame) value {
	if caller != nil && !caller.panicking &&
		caller.caller != nil && caller.caller.panicking {
		caller.caller.panicking = false
		p := caller.caller.panic
		caller.caller.panic = nil
		switch p := p.(type) {
		case targetPanic:
			return p.v
		default:
			panic(fmt.Sprintf("unexpected panic type %T in target call to recover()", p))
		}
	}
	return iface{}
}

// stackString renders the current interpreted call stack.
func (i *interpreter) stackString() string {
	var sb strings.Builder
	n := 0
	for fr := i.cur.curFrame; fr != nil && n < 16; fr = fr.caller {
		fmt.Fprintf(&sb, "%s\n", fr.fn)
		n++
	}
	return sb.String()
}
