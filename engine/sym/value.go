// Portions derived from golang.org/x/tools/go/ssa/interp (BSD-style license, The Go Authors).

package sym

// Values
//
// All interpreter values are boxed in the empty interface `value`. Dynamic types:
//
// - ival            --- bool and every integer type: a term (constant or symbolic) plus the Go basic kind
// - float32/float64/complex128 --- native, concrete only
// - string          --- fully concrete string
// - sstr            --- string of concrete length whose bytes are ivals (some symbolic)
// - *smap           --- maps (ordered association list; deterministic)
// - *schan          --- channels (queue model)
// - []value         --- slices (share backing arrays natively)
// - iface           --- interfaces
// - structure       --- structs
// - array           --- arrays
// - *value          --- pointers; *symptr is a pointer to slice element with symbolic index
// - *ssa.Function / *ssa.Builtin / *closure --- functions
// - tuple           --- multi-results
// - iter            --- range iterators
// - *native         --- opaque host object (e.g. *regexp.Regexp) used by intrinsics

import (
	"bytes"
	"fmt"
	"go/types"
	"strings"

	"golang.org/x/tools/go/ssa"
)

type value interface{}

type ival struct {
	t *Term
	k types.BasicKind
}

type sstr struct {
	b []value // each an ival of kind Uint8
}

type tuple []value

type array []value

type iface struct {
	t types.Type // never an "untyped" type
	v value
}

type structure []value

type iter interface {
	next(i *interpreter) tuple
}

type closure struct {
	Fn  *ssa.Function
	Env []value
}

type bad struct{}

type native struct {
	v    interface{}
	desc string
}

// symptr addresses base[idx] where idx is symbolic and already known (by the path condition) to be in bounds.
type symptr struct {
	base []value
	idx  *Term // 64-bit
}

func kindInfo(k types.BasicKind) (w int, signed bool) {
	switch k {
	case types.Bool, types.UntypedBool:
		return 0, false
	case types.Int, types.Int64, types.UntypedInt:
		return 64, true
	case types.Int8:
		return 8, true
	case types.Int16:
		return 16, true
	case types.Int32, types.UntypedRune:
		return 32, true
	case types.Uint, types.Uint64, types.Uintptr:
		return 64, false
	case types.Uint8:
		return 8, false
	case types.Uint16:
		return 16, false
	case types.Uint32:
		return 32, false
	}
	panic(fmt.Sprintf("kindInfo: not an integer kind: %v", k))
}

func isIntKind(k types.BasicKind) bool {
	switch k {
	case types.Int, types.Int8, types.Int16, types.Int32, types.Int64,
		types.Uint, types.Uint8, types.Uint16, types.Uint32, types.Uint64, types.Uintptr,
		types.UntypedInt, types.UntypedRune:
		return true
	}
	return false
}

func normKind(k types.BasicKind) types.BasicKind {
	switch k {
	case types.UntypedBool:
		return types.Bool
	case types.UntypedInt:
		return types.Int
	case types.UntypedRune:
		return types.Int32
	}
	return k
}

func (i *interpreter) mkInt(k types.BasicKind, v int64) ival {
	k = normKind(k)
	w, _ := kindInfo(k)
	return ival{i.ctx.BV(uint64(v), w), k}
}

func (i *interpreter) mkBool(b bool) ival {
	return ival{i.ctx.Bool(b), types.Bool}
}

func (i *interpreter) mkByte(b byte) ival {
	return ival{i.ctx.BV(uint64(b), 8), types.Uint8}
}

func (v ival) isConst() bool { return v.t.IsConst() }

// int64 value of a constant ival (sign-extended according to its kind).
func (v ival) i64() int64 {
	w, signed := kindInfo(v.k)
	if w == 0 {
		return int64(v.t.val)
	}
	if signed {
		return sext64(v.t.val, w)
	}
	return int64(v.t.val)
}

func (v ival) bool() bool { return v.t.val != 0 }

// isTrue/isFalse for constant bools
func isConstBool(v value) (b bool, ok bool) {
	x, isI := v.(ival)
	if !isI || !x.t.IsConst() {
		return false, false
	}
	return x.t.val != 0, true
}

// nil-tolerant variant of types.Identical.
func sameType(x, y types.Type) bool {
	if x == nil {
		return y == nil
	}
	return y != nil && types.Identical(x, y)
}

// ---- strings -------------------------------------------------------------------------------------------

// strLen returns the (always concrete) length of a string value.
func strLen(v value) int {
	switch s := v.(type) {
	case string:
		return len(s)
	case sstr:
		return len(s.b)
	}
	panic(fmt.Sprintf("strLen: not a string: %T", v))
}

// strBytes returns the bytes of a string value as ivals.
func (i *interpreter) strBytes(v value) []value {
	switch s := v.(type) {
	case string:
		r := make([]value, len(s))
		for j := 0; j < len(s); j++ {
			r[j] = i.mkByte(s[j])
		}
		return r
	case sstr:
		return s.b
	}
	panic(fmt.Sprintf("strBytes: not a string: %T", v))
}

// mkStr builds a string value from byte ivals; fully concrete strings become Go strings.
func mkStr(bs []value) value {
	allc := true
	for _, b := range bs {
		if !b.(ival).t.IsConst() {
			allc = false
			break
		}
	}
	if allc {
		buf := make([]byte, len(bs))
		for j, b := range bs {
			buf[j] = byte(b.(ival).t.val)
		}
		return string(buf)
	}
	cp := make([]value, len(bs))
	copy(cp, bs)
	return sstr{cp}
}

// concreteString returns the Go string if v is fully concrete.
func concreteString(v value) (string, bool) {
	switch s := v.(type) {
	case string:
		return s, true
	case sstr:
		if r, ok := mkStr(s.b).(string); ok {
			return r, true
		}
	}
	return "", false
}

// ---- equality --------------------------------------------------------------------------------------------

// equalsT returns a boolean term for x == y at type t (Go's comparison semantics).
func (i *interpreter) equalsT(t types.Type, x, y value) *Term {
	c := i.ctx
	switch x := x.(type) {
	case ival:
		yy := y.(ival)
		return c.Cmp(OpEq, x.t, yy.t)
	case float32:
		return c.Bool(x == y.(float32))
	case float64:
		return c.Bool(x == y.(float64))
	case complex128:
		return c.Bool(x == y.(complex128))
	case string:
		if ys, ok := y.(string); ok {
			return c.Bool(x == ys)
		}
		return i.strEq(x, y)
	case sstr:
		return i.strEq(x, y)
	case *value:
		switch yp := y.(type) {
		case *value:
			return c.Bool(x == yp)
		case *symptr:
			return c.False() // distinct representation; symbolic element pointers are never compared in supported code
		}
	case *symptr:
		i.unsupported("comparison of symbolic-index pointers")
	case *schan:
		return c.Bool(x == y.(*schan))
	case *native:
		return c.Bool(x == y.(*native))
	case structure:
		yy := y.(structure)
		tStruct := t.Underlying().(*types.Struct)
		r := c.True()
		for j, n := 0, tStruct.NumFields(); j < n; j++ {
			if f := tStruct.Field(j); f.Name() != "_" {
				r = c.And(r, i.equalsT(f.Type(), x[j], yy[j]))
			}
		}
		return r
	case array:
		yy := y.(array)
		tElt := t.Underlying().(*types.Array).Elem()
		r := c.True()
		for j := range x {
			r = c.And(r, i.equalsT(tElt, x[j], yy[j]))
		}
		return r
	case iface:
		yy := y.(iface)
		if !sameType(x.t, yy.t) {
			return c.False()
		}
		if x.t == nil {
			return c.True()
		}
		if !types.Comparable(x.t) {
			panic(targetPanic{v: i.runtimeError("comparing uncomparable type " + x.t.String())})
		}
		return i.equalsT(x.t, x.v, yy.v)
	case unsafePtr:
		return c.Bool(x == y.(unsafePtr))
	}
	panic(fmt.Sprintf("equalsT: comparing uncomparable type %s (%T)", t, x))
}

type unsafePtr struct{ p *value }

func (i *interpreter) strEq(x, y value) *Term {
	c := i.ctx
	if strLen(x) != strLen(y) {
		return c.False()
	}
	xb, yb := i.strBytes(x), i.strBytes(y)
	r := c.True()
	for j := range xb {
		r = c.And(r, c.Cmp(OpEq, xb[j].(ival).t, yb[j].(ival).t))
	}
	return r
}

// strLess returns the term for x < y (lexicographic, bytewise).
func (i *interpreter) strLess(x, y value) *Term {
	c := i.ctx
	xb, yb := i.strBytes(x), i.strBytes(y)
	n := len(xb)
	if len(yb) < n {
		n = len(yb)
	}
	// result for the common-prefix-equal case
	r := c.Bool(len(xb) < len(yb))
	for j := n - 1; j >= 0; j-- {
		a, b := xb[j].(ival).t, yb[j].(ival).t
		r = c.Ite(c.Cmp(OpUlt, a, b), c.True(), c.Ite(c.Cmp(OpUlt, b, a), c.False(), r))
	}
	return r
}

// ---- load / store ----------------------------------------------------------------------------------------

// load returns the value of type T in *addr (deep copy of aggregates).
func load(T types.Type, addr *value) value {
	switch T := T.Underlying().(type) {
	case *types.Struct:
		v := (*addr).(structure)
		a := make(structure, len(v))
		for i := range a {
			a[i] = load(T.Field(i).Type(), &v[i])
		}
		return a
	case *types.Array:
		v := (*addr).(array)
		a := make(array, len(v))
		for i := range a {
			a[i] = load(T.Elem(), &v[i])
		}
		return a
	default:
		return *addr
	}
}

// store stores value v of type T into *addr.
func store(T types.Type, addr *value, v value) {
	switch T := T.Underlying().(type) {
	case *types.Struct:
		lhs := (*addr).(structure)
		rhs := v.(structure)
		for i := range lhs {
			store(T.Field(i).Type(), &lhs[i], rhs[i])
		}
	case *types.Array:
		lhs := (*addr).(array)
		rhs := v.(array)
		for i := range lhs {
			store(T.Elem(), &lhs[i], rhs[i])
		}
	default:
		*addr = v
	}
}

// copyVal deep-copies aggregates (structs/arrays are value types).
func copyVal(v value) value {
	switch x := v.(type) {
	case structure:
		a := make(structure, len(x))
		for i := range x {
			a[i] = copyVal(x[i])
		}
		return a
	case array:
		a := make(array, len(x))
		for i := range x {
			a[i] = copyVal(x[i])
		}
		return a
	}
	return v
}

// merge returns ite(cond, a, b) for values of identical shape; ok=false if the shapes cannot be merged.
func (i *interpreter) merge(cond *Term, a, b value) (value, bool) {
	switch x := a.(type) {
	case ival:
		y, ok := b.(ival)
		if !ok {
			return nil, false
		}
		return ival{i.ctx.Ite(cond, x.t, y.t), x.k}, true
	case structure:
		y, ok := b.(structure)
		if !ok || len(x) != len(y) {
			return nil, false
		}
		r := make(structure, len(x))
		for j := range x {
			m, ok := i.merge(cond, x[j], y[j])
			if !ok {
				return nil, false
			}
			r[j] = m
		}
		return r, true
	case array:
		y, ok := b.(array)
		if !ok || len(x) != len(y) {
			return nil, false
		}
		r := make(array, len(x))
		for j := range x {
			m, ok := i.merge(cond, x[j], y[j])
			if !ok {
				return nil, false
			}
			r[j] = m
		}
		return r, true
	case string, sstr:
		switch b.(type) {
		case string, sstr:
		default:
			return nil, false
		}
		if strLen(a) != strLen(b) {
			return nil, false
		}
		xb, yb := i.strBytes(a), i.strBytes(b)
		r := make([]value, len(xb))
		for j := range xb {
			r[j] = ival{i.ctx.Ite(cond, xb[j].(ival).t, yb[j].(ival).t), types.Uint8}
		}
		return mkStr(r), true
	case *value:
		if y, ok := b.(*value); ok && x == y {
			return a, true
		}
		return nil, false
	case iface:
		y, ok := b.(iface)
		if !ok || !sameType(x.t, y.t) {
			return nil, false
		}
		if x.t == nil {
			return a, true
		}
		m, ok := i.merge(cond, x.v, y.v)
		if !ok {
			return nil, false
		}
		return iface{x.t, m}, true
	case []value:
		y, ok := b.([]value)
		if !ok {
			return nil, false
		}
		if len(x) == 0 && len(y) == 0 && (x == nil) == (y == nil) {
			return a, true
		}
		if len(x) == len(y) && len(x) > 0 && &x[0] == &y[0] && cap(x) == cap(y) {
			return a, true
		}
		return nil, false
	case float64:
		if y, ok := b.(float64); ok && x == y {
			return a, true
		}
		return nil, false
	case *smap:
		if y, ok := b.(*smap); ok && x == y {
			return a, true
		}
		return nil, false
	case *ssa.Function:
		if y, ok := b.(*ssa.Function); ok && x == y {
			return a, true
		}
		return nil, false
	case *closure:
		if y, ok := b.(*closure); ok && x == y {
			return a, true
		}
		return nil, false
	}
	return nil, false
}

// ---- printing --------------------------------------------------------------------------------------------

func writeValue(buf *bytes.Buffer, v value, depth int) {
	if depth > 4 {
		buf.WriteString("…")
		return
	}
	switch v := v.(type) {
	case nil:
		buf.WriteString("<nil>")
	case ival:
		if v.t.IsConst() {
			if v.k == types.Bool {
				fmt.Fprintf(buf, "%v", v.t.val != 0)
			} else {
				fmt.Fprintf(buf, "%d", v.i64())
			}
		} else {
			s := v.t.String()
			if len(s) > 80 {
				s = s[:80] + "…"
			}
			buf.WriteString(s)
		}
	case float32, float64, complex128:
		fmt.Fprintf(buf, "%v", v)
	case string:
		fmt.Fprintf(buf, "%q", v)
	case sstr:
		buf.WriteString("sstr[")
		for j, b := range v.b {
			if j > 0 {
				buf.WriteByte(' ')
			}
			writeValue(buf, b, depth+1)
		}
		buf.WriteString("]")
	case *smap:
		if v == nil {
			buf.WriteString("map(nil)")
			return
		}
		buf.WriteString("map[")
		for j := range v.keys {
			if j > 0 {
				buf.WriteByte(' ')
			}
			writeValue(buf, v.keys[j], depth+1)
			buf.WriteString(":")
			writeValue(buf, v.vals[j], depth+1)
		}
		buf.WriteString("]")
	case *schan:
		fmt.Fprintf(buf, "chan(%p)", v)
	case *value:
		if v == nil {
			buf.WriteString("<nil>")
		} else {
			fmt.Fprintf(buf, "%p", v)
		}
	case *symptr:
		buf.WriteString("&[sym]")
	case iface:
		if v.t == nil {
			buf.WriteString("(nil)")
			return
		}
		fmt.Fprintf(buf, "(%s, ", v.t)
		writeValue(buf, v.v, depth+1)
		buf.WriteString(")")
	case structure:
		buf.WriteString("{")
		for i, e := range v {
			if i > 0 {
				buf.WriteString(" ")
			}
			writeValue(buf, e, depth+1)
		}
		buf.WriteString("}")
	case array:
		buf.WriteString("[")
		for i, e := range v {
			if i > 0 {
				buf.WriteString(" ")
			}
			writeValue(buf, e, depth+1)
		}
		buf.WriteString("]")
	case []value:
		buf.WriteString("[")
		for i, e := range v {
			if i > 0 {
				buf.WriteString(" ")
			}
			if i > 16 {
				buf.WriteString("…")
				break
			}
			writeValue(buf, e, depth+1)
		}
		buf.WriteString("]")
	case *ssa.Function, *ssa.Builtin, *closure:
		fmt.Fprintf(buf, "func(%p)", v)
	case tuple:
		buf.WriteString("(")
		for i, e := range v {
			if i > 0 {
				buf.WriteString(", ")
			}
			writeValue(buf, e, depth+1)
		}
		buf.WriteString(")")
	default:
		fmt.Fprintf(buf, "<%T>", v)
	}
}

func toString(v value) string {
	var b bytes.Buffer
	writeValue(&b, v, 0)
	return b.String()
}

var _ = strings.Repeat
