package sym

// Maps are ordered association lists. Lookups with symbolic keys fork on key equality (one entry at a time).
// Iteration order: insertion order, optionally permuted by a nondeterministic choice (see rangeIter).

import (
	"go/types"
)

type smap struct {
	keyT types.Type
	keys []value
	vals []value
}

func makeMap(kt types.Type) *smap {
	return &smap{keyT: kt}
}

// find returns the index of key k, or -1. Forks when equality is symbolic.
func (i *interpreter) mapFind(m *smap, k value) int {
	if m == nil {
		return -1
	}
	for j := range m.keys {
		eq := i.equalsT(m.keyT, m.keys[j], k)
		if eq.IsConst() {
			if eq.val != 0 {
				return j
			}
			continue
		}
		if i.ex.Branch(eq) {
			return j
		}
	}
	return -1
}

func (i *interpreter) mapLookup(m *smap, k value) (value, bool) {
	j := i.mapFind(m, k)
	if j < 0 {
		return nil, false
	}
	return m.vals[j], true
}

func (i *interpreter) mapInsert(m *smap, k, v value) {
	if m == nil {
		panic(targetPanic{v: i.runtimeError("assignment to entry in nil map")})
	}
	j := i.mapFind(m, k)
	if j >= 0 {
		m.vals[j] = v
		return
	}
	m.keys = append(m.keys, k)
	m.vals = append(m.vals, v)
}

func (i *interpreter) mapDelete(m *smap, k value) {
	j := i.mapFind(m, k)
	if j < 0 {
		return
	}
	m.keys = append(m.keys[:j:j], m.keys[j+1:]...)
	m.vals = append(m.vals[:j:j], m.vals[j+1:]...)
}

func (m *smap) len() int {
	if m == nil {
		return 0
	}
	return len(m.keys)
}

type mapIter struct {
	m    *smap
	keys []value // snapshot in visiting order
	pos  int
}

func (it *mapIter) next(i *interpreter) tuple {
	for it.pos < len(it.keys) {
		k := it.keys[it.pos]
		it.pos++
		// an entry deleted during iteration is not produced
		for j := range it.m.keys {
			if sameKey(it.m.keys[j], k) {
				return tuple{i.mkBool(true), k, copyVal(it.m.vals[j])}
			}
		}
	}
	return tuple{i.mkBool(false), nil, nil}
}

// sameKey: physical identity of the key value stored in the map (snapshot entries are the same objects).
func sameKey(a, b value) bool {
	switch x := a.(type) {
	case ival:
		y, ok := b.(ival)
		return ok && x.t == y.t && x.k == y.k
	case string:
		y, ok := b.(string)
		return ok && x == y
	case sstr:
		y, ok := b.(sstr)
		if !ok || len(x.b) != len(y.b) {
			return false
		}
		for j := range x.b {
			if !sameKey(x.b[j], y.b[j]) {
				return false
			}
		}
		return true
	case *value:
		y, ok := b.(*value)
		return ok && x == y
	case iface:
		y, ok := b.(iface)
		return ok && sameType(x.t, y.t) && (x.t == nil || sameKey(x.v, y.v))
	case structure:
		y, ok := b.(structure)
		if !ok || len(x) != len(y) {
			return false
		}
		for j := range x {
			if !sameKey(x[j], y[j]) {
				return false
			}
		}
		return true
	case array:
		y, ok := b.(array)
		if !ok || len(x) != len(y) {
			return false
		}
		for j := range x {
			if !sameKey(x[j], y[j]) {
				return false
			}
		}
		return true
	case *schan:
		y, ok := b.(*schan)
		return ok && x == y
	case float64:
		y, ok := b.(float64)
		return ok && x == y
	case *native:
		y, ok := b.(*native)
		return ok && x == y
	}
	return false
}

// permutations of 0..n-1 in lexicographic order (n <= 4 used)
func permutations(n int) [][]int {
	var res [][]int
	var rec func(cur []int, used []bool)
	rec = func(cur []int, used []bool) {
		if len(cur) == n {
			res = append(res, append([]int(nil), cur...))
			return
		}
		for j := 0; j < n; j++ {
			if !used[j] {
				used[j] = true
				rec(append(cur, j), used)
				used[j] = false
			}
		}
	}
	rec(nil, make([]bool, n))
	return res
}

// ---- channels -----------------------------------------------------------------------------------------------

type schan struct {
	buf         []value
	cap         int
	closed      bool
	elemT       types.Type
	taken       int // unbuffered: number of hand-offs completed
	pendingSend int
	recvWaiting int
	fired       bool // time.After channel whose tick was delivered
}
