package sym

// Hash-consed term DAG over fixed-width bit-vectors and booleans, with
// constant folding, an evaluator (used for model-guided branch selection and
// for counterexample concretisation) and an SMT-LIB2 printer.

import (
	"fmt"
	"math/bits"
	"strings"
)

type Op uint8

const (
	OpConst Op = iota // bit-vector constant (w>0) or boolean constant (w==0, val 0/1)
	OpVar
	OpAdd
	OpSub
	OpMul
	OpUDiv
	OpSDiv
	OpURem
	OpSRem
	OpAnd
	OpOr
	OpXor
	OpShl
	OpLShr
	OpAShr
	OpNot // bvnot
	OpNeg // bvneg
	OpExtract
	OpConcat
	OpZExt
	OpSExt
	OpIte
	OpEq
	OpUlt
	OpUle
	OpSlt
	OpSle
	OpBAnd
	OpBOr
	OpBNot
)

var opNames = [...]string{"const", "var", "bvadd", "bvsub", "bvmul", "bvudiv", "bvsdiv", "bvurem", "bvsrem",
	"bvand", "bvor", "bvxor", "bvshl", "bvlshr", "bvashr", "bvnot", "bvneg", "extract", "concat",
	"zero_extend", "sign_extend", "ite", "=", "bvult", "bvule", "bvslt", "bvsle", "and", "or", "not"}

// Term is an immutable node. w == 0 means sort Bool.
type Term struct {
	id   int
	op   Op
	w    int
	args []*Term
	val  uint64
	name string
	hi   int
	lo   int
}

func (t *Term) IsConst() bool { return t.op == OpConst }
func (t *Term) IsBool() bool  { return t.w == 0 }
func (t *Term) Width() int    { return t.w }

type termKey struct {
	op         Op
	w          int
	a0, a1, a2 int
	val        uint64
	name       string
	hi, lo     int
}

// TermCtx owns the hash-consing table of one path exploration.
type TermCtx struct {
	tab   map[termKey]*Term
	nodes []*Term
	vars  []*Term
	tt    *Term
	ff    *Term
	// var ranges (inclusive, unsigned) declared through assume-at-creation; used by quick pruning.
	nvar int
}

func NewTermCtx() *TermCtx {
	c := &TermCtx{tab: map[termKey]*Term{}}
	c.ff = c.mk(termKey{op: OpConst, w: 0, val: 0, a0: -1, a1: -1, a2: -1}, nil)
	c.tt = c.mk(termKey{op: OpConst, w: 0, val: 1, a0: -1, a1: -1, a2: -1}, nil)
	return c
}

func (c *TermCtx) mk(k termKey, args []*Term) *Term {
	if t, ok := c.tab[k]; ok {
		return t
	}
	t := &Term{id: len(c.nodes), op: k.op, w: k.w, args: args, val: k.val, name: k.name, hi: k.hi, lo: k.lo}
	c.nodes = append(c.nodes, t)
	c.tab[k] = t
	if k.op == OpVar {
		c.vars = append(c.vars, t)
	}
	return t
}

func mask(w int) uint64 {
	if w >= 64 {
		return ^uint64(0)
	}
	return (uint64(1) << uint(w)) - 1
}

func sext64(v uint64, w int) int64 {
	if w >= 64 {
		return int64(v)
	}
	sh := uint(64 - w)
	return int64(v<<sh) >> sh
}

func (c *TermCtx) True() *Term  { return c.tt }
func (c *TermCtx) False() *Term { return c.ff }
func (c *TermCtx) Bool(b bool) *Term {
	if b {
		return c.tt
	}
	return c.ff
}

func (c *TermCtx) BV(v uint64, w int) *Term {
	return c.mk(termKey{op: OpConst, w: w, val: v & mask(w), a0: -1, a1: -1, a2: -1}, nil)
}

// Var creates (or returns) the variable with the given name.
func (c *TermCtx) Var(name string, w int) *Term {
	return c.mk(termKey{op: OpVar, w: w, name: name, a0: -1, a1: -1, a2: -1}, nil)
}

func (c *TermCtx) FreshVar(prefix string, w int) *Term {
	c.nvar++
	return c.Var(fmt.Sprintf("%s!%d", sanitize(prefix), c.nvar), w)
}

func sanitize(s string) string {
	var b strings.Builder
	for _, r := range s {
		if r >= 'a' && r <= 'z' || r >= 'A' && r <= 'Z' || r >= '0' && r <= '9' || r == '_' || r == '.' {
			b.WriteRune(r)
		} else {
			b.WriteByte('_')
		}
	}
	return b.String()
}

func (c *TermCtx) node(op Op, w int, args ...*Term) *Term {
	k := termKey{op: op, w: w, a0: -1, a1: -1, a2: -1}
	if len(args) > 0 {
		k.a0 = args[0].id
	}
	if len(args) > 1 {
		k.a1 = args[1].id
	}
	if len(args) > 2 {
		k.a2 = args[2].id
	}
	return c.mk(k, args)
}

func evalBin(op Op, w int, a, b uint64) uint64 {
	m := mask(w)
	switch op {
	case OpAdd:
		return (a + b) & m
	case OpSub:
		return (a - b) & m
	case OpMul:
		return (a * b) & m
	case OpUDiv:
		if b == 0 {
			return m
		}
		return a / b
	case OpURem:
		if b == 0 {
			return a
		}
		return a % b
	case OpSDiv:
		sa, sb := sext64(a, w), sext64(b, w)
		if sb == 0 {
			if sa < 0 {
				return 1
			}
			return m
		}
		if sb == -1 {
			return uint64(-sa) & m
		}
		return uint64(sa/sb) & m
	case OpSRem:
		sa, sb := sext64(a, w), sext64(b, w)
		if sb == 0 {
			return a
		}
		if sb == -1 {
			return 0
		}
		return uint64(sa%sb) & m
	case OpAnd:
		return a & b
	case OpOr:
		return a | b
	case OpXor:
		return a ^ b
	case OpShl:
		if b >= uint64(w) {
			return 0
		}
		return (a << b) & m
	case OpLShr:
		if b >= uint64(w) {
			return 0
		}
		return a >> b
	case OpAShr:
		sa := sext64(a, w)
		if b >= uint64(w) {
			if sa < 0 {
				return m
			}
			return 0
		}
		return uint64(sa>>b) & m
	}
	panic("evalBin: bad op")
}

func evalCmp(op Op, w int, a, b uint64) bool {
	switch op {
	case OpEq:
		return a == b
	case OpUlt:
		return a < b
	case OpUle:
		return a <= b
	case OpSlt:
		return sext64(a, w) < sext64(b, w)
	case OpSle:
		return sext64(a, w) <= sext64(b, w)
	}
	panic("evalCmp: bad op")
}

// maxVal returns an upper bound (unsigned) of a bit-vector term by a cheap structural analysis.
func maxVal(t *Term, depth int) uint64 {
	m := mask(t.w)
	if depth > 8 {
		return m
	}
	switch t.op {
	case OpConst:
		return t.val
	case OpZExt:
		return maxVal(t.args[0], depth+1)
	case OpLShr:
		if t.args[1].IsConst() {
			if t.args[1].val >= uint64(t.w) {
				return 0
			}
			return maxVal(t.args[0], depth+1) >> t.args[1].val
		}
		return maxVal(t.args[0], depth+1)
	case OpAnd:
		a, b := maxVal(t.args[0], depth+1), maxVal(t.args[1], depth+1)
		if a < b {
			return a
		}
		return b
	case OpOr, OpXor:
		a, b := maxVal(t.args[0], depth+1), maxVal(t.args[1], depth+1)
		if a < b {
			a = b
		}
		// smallest 2^k-1 >= a
		r := uint64(0)
		for r < a {
			r = r<<1 | 1
		}
		return r
	case OpIte:
		a, b := maxVal(t.args[1], depth+1), maxVal(t.args[2], depth+1)
		if a < b {
			return b
		}
		return a
	case OpExtract:
		if t.lo == 0 {
			a := maxVal(t.args[0], depth+1)
			if a < m {
				return a
			}
		}
		return m
	case OpURem:
		if t.args[1].IsConst() && t.args[1].val > 0 {
			return t.args[1].val - 1
		}
	case OpUDiv:
		if t.args[1].IsConst() && t.args[1].val > 0 {
			return maxVal(t.args[0], depth+1) / t.args[1].val
		}
	case OpConcat:
		return maxVal(t.args[0], depth+1)<<uint(t.args[1].w) | mask(t.args[1].w)
	}
	return m
}

// Bin builds a binary bit-vector operation.
func (c *TermCtx) Bin(op Op, a, b *Term) *Term {
	if a.w != b.w {
		panic(fmt.Sprintf("Bin %s: width mismatch %d vs %d", opNames[op], a.w, b.w))
	}
	w := a.w
	if a.IsConst() && b.IsConst() {
		return c.BV(evalBin(op, w, a.val, b.val), w)
	}
	switch op {
	case OpAdd:
		if a.IsConst() && a.val == 0 {
			return b
		}
		if b.IsConst() && b.val == 0 {
			return a
		}
		if a.IsConst() { // canonical: const on the right
			a, b = b, a
		}
		// (x + k1) + k2 => x + (k1+k2)
		if b.IsConst() && a.op == OpAdd && a.args[1].IsConst() {
			return c.Bin(OpAdd, a.args[0], c.BV(a.args[1].val+b.val, w))
		}
	case OpSub:
		if b.IsConst() && b.val == 0 {
			return a
		}
		if a == b {
			return c.BV(0, w)
		}
		if b.IsConst() {
			return c.Bin(OpAdd, a, c.BV(-b.val, w))
		}
	case OpMul:
		if a.IsConst() {
			a, b = b, a
		}
		if b.IsConst() {
			if b.val == 0 {
				return b
			}
			if b.val == 1 {
				return a
			}
		}
	case OpAnd:
		if a.IsConst() {
			a, b = b, a
		}
		if b.IsConst() {
			if b.val == 0 {
				return b
			}
			if b.val == mask(w) {
				return a
			}
		}
		if a == b {
			return a
		}
	case OpOr:
		if a.IsConst() {
			a, b = b, a
		}
		if b.IsConst() {
			if b.val == 0 {
				return a
			}
			if b.val == mask(w) {
				return b
			}
		}
		if a == b {
			return a
		}
	case OpXor:
		if a.IsConst() {
			a, b = b, a
		}
		if b.IsConst() && b.val == 0 {
			return a
		}
		if a == b {
			return c.BV(0, w)
		}
	case OpShl, OpLShr, OpAShr:
		if b.IsConst() && b.val == 0 {
			return a
		}
		if b.IsConst() && b.val >= uint64(w) && op != OpAShr {
			return c.BV(0, w)
		}
	case OpUDiv, OpSDiv:
		if b.IsConst() && b.val == 1 {
			return a
		}
	}
	return c.node(op, w, a, b)
}

func (c *TermCtx) Un(op Op, a *Term) *Term {
	if a.IsConst() {
		switch op {
		case OpNot:
			return c.BV(^a.val, a.w)
		case OpNeg:
			return c.BV(-a.val, a.w)
		}
	}
	if a.op == op { // double negation
		return a.args[0]
	}
	return c.node(op, a.w, a)
}

func (c *TermCtx) Cmp(op Op, a, b *Term) *Term {
	if a.w != b.w {
		panic(fmt.Sprintf("Cmp %s: width mismatch %d vs %d", opNames[op], a.w, b.w))
	}
	if a.w == 0 { // boolean equality
		if op != OpEq {
			panic("Cmp: ordered comparison of booleans")
		}
		if a.IsConst() {
			if a.val == 1 {
				return b
			}
			return c.Not(b)
		}
		if b.IsConst() {
			if b.val == 1 {
				return a
			}
			return c.Not(a)
		}
		if a == b {
			return c.tt
		}
		if a.id > b.id {
			a, b = b, a
		}
		return c.node(OpEq, 0, a, b)
	}
	if a.IsConst() && b.IsConst() {
		return c.Bool(evalCmp(op, a.w, a.val, b.val))
	}
	if a == b {
		return c.Bool(op == OpEq || op == OpUle || op == OpSle)
	}
	w := a.w
	switch op {
	case OpEq:
		if a.IsConst() {
			a, b = b, a
		}
		// ite(c, k1, k2) == k  with constants
		if b.IsConst() && a.op == OpIte && a.args[1].IsConst() && a.args[2].IsConst() {
			t1 := a.args[1].val == b.val
			t2 := a.args[2].val == b.val
			switch {
			case t1 && t2:
				return c.tt
			case t1:
				return a.args[0]
			case t2:
				return c.Not(a.args[0])
			default:
				return c.ff
			}
		}
		// zext(x) == k
		if b.IsConst() && a.op == OpZExt {
			x := a.args[0]
			if b.val > mask(x.w) {
				return c.ff
			}
			return c.Cmp(OpEq, x, c.BV(b.val, x.w))
		}
		// (x + k1) == k2  => x == k2-k1
		if b.IsConst() && a.op == OpAdd && a.args[1].IsConst() {
			return c.Cmp(OpEq, a.args[0], c.BV(b.val-a.args[1].val, w))
		}
		if !b.IsConst() && a.id > b.id {
			a, b = b, a
		}
	case OpUlt:
		if b.IsConst() && b.val == 0 {
			return c.ff
		}
		if b.IsConst() && maxVal(a, 0) < b.val {
			return c.tt
		}
		if a.IsConst() && a.val == mask(w) {
			return c.ff
		}
		// zext(x) < k with k beyond x's range
		if b.IsConst() && a.op == OpZExt && b.val > mask(a.args[0].w) {
			return c.tt
		}
	case OpUle:
		if a.IsConst() && a.val == 0 {
			return c.tt
		}
		if b.IsConst() && maxVal(a, 0) <= b.val {
			return c.tt
		}
		if b.IsConst() && b.val == mask(w) {
			return c.tt
		}
		if b.IsConst() && a.op == OpZExt && b.val >= mask(a.args[0].w) {
			return c.tt
		}
	case OpSlt:
		if b.IsConst() && sext64(b.val, w) > 0 {
			if ma := maxVal(a, 0); ma < (uint64(1)<<uint(w-1)) && ma < b.val {
				return c.tt
			}
		}
		if a.IsConst() && sext64(a.val, w) < 0 {
			if mb := maxVal(b, 0); mb < (uint64(1) << uint(w-1)) {
				return c.tt
			}
		}
		// zext(x) <s k : zext values are non-negative and small
		if a.op == OpZExt && b.IsConst() && a.args[0].w < w {
			if sext64(b.val, w) <= 0 {
				return c.ff
			}
			if uint64(sext64(b.val, w)) > mask(a.args[0].w) {
				return c.tt
			}
		}
		if b.op == OpZExt && a.IsConst() && b.args[0].w < w {
			if sext64(a.val, w) < 0 {
				return c.tt
			}
		}
	case OpSle:
		if b.IsConst() && sext64(b.val, w) >= 0 {
			if ma := maxVal(a, 0); ma < (uint64(1)<<uint(w-1)) && ma <= b.val {
				return c.tt
			}
		}
		if a.IsConst() && sext64(a.val, w) <= 0 {
			if mb := maxVal(b, 0); mb < (uint64(1) << uint(w-1)) {
				return c.tt
			}
		}
		if a.op == OpZExt && b.IsConst() && a.args[0].w < w {
			if sext64(b.val, w) < 0 {
				return c.ff
			}
			if uint64(sext64(b.val, w)) >= mask(a.args[0].w) {
				return c.tt
			}
		}
		if b.op == OpZExt && a.IsConst() && b.args[0].w < w {
			if sext64(a.val, w) <= 0 {
				return c.tt
			}
		}
	}
	return c.node(op, 0, a, b)
}

func (c *TermCtx) Not(a *Term) *Term {
	if a.w != 0 {
		panic("Not: not a boolean")
	}
	if a.IsConst() {
		return c.Bool(a.val == 0)
	}
	if a.op == OpBNot {
		return a.args[0]
	}
	return c.node(OpBNot, 0, a)
}

func (c *TermCtx) And(a, b *Term) *Term {
	if a.w != 0 || b.w != 0 {
		panic("And: not booleans")
	}
	if a.IsConst() {
		if a.val == 1 {
			return b
		}
		return a
	}
	if b.IsConst() {
		if b.val == 1 {
			return a
		}
		return b
	}
	if a == b {
		return a
	}
	if a.op == OpBNot && a.args[0] == b || b.op == OpBNot && b.args[0] == a {
		return c.ff
	}
	return c.node(OpBAnd, 0, a, b)
}

func (c *TermCtx) Or(a, b *Term) *Term {
	if a.w != 0 || b.w != 0 {
		panic("Or: not booleans")
	}
	if a.IsConst() {
		if a.val == 1 {
			return a
		}
		return b
	}
	if b.IsConst() {
		if b.val == 1 {
			return b
		}
		return a
	}
	if a == b {
		return a
	}
	if a.op == OpBNot && a.args[0] == b || b.op == OpBNot && b.args[0] == a {
		return c.tt
	}
	return c.node(OpBOr, 0, a, b)
}

func (c *TermCtx) Ite(cond, a, b *Term) *Term {
	if cond.w != 0 {
		panic("Ite: condition is not boolean")
	}
	if a.w != b.w {
		panic(fmt.Sprintf("Ite: width mismatch %d vs %d", a.w, b.w))
	}
	if cond.IsConst() {
		if cond.val == 1 {
			return a
		}
		return b
	}
	if a == b {
		return a
	}
	if a.w == 0 {
		// boolean ite
		if a.IsConst() && b.IsConst() {
			if a.val == 1 {
				return cond
			}
			return c.Not(cond)
		}
		if a.IsConst() {
			if a.val == 1 {
				return c.Or(cond, b)
			}
			return c.And(c.Not(cond), b)
		}
		if b.IsConst() {
			if b.val == 1 {
				return c.Or(c.Not(cond), a)
			}
			return c.And(cond, a)
		}
	}
	if cond.op == OpBNot {
		return c.Ite(cond.args[0], b, a)
	}
	return c.node(OpIte, a.w, cond, a, b)
}

func (c *TermCtx) Extract(a *Term, hi, lo int) *Term {
	if hi < lo || hi >= a.w {
		panic(fmt.Sprintf("Extract: bad range [%d:%d] of width %d", hi, lo, a.w))
	}
	w := hi - lo + 1
	if w == a.w {
		return a
	}
	if a.IsConst() {
		return c.BV(a.val>>uint(lo), w)
	}
	if (a.op == OpZExt || a.op == OpSExt) && hi < a.args[0].w {
		return c.Extract(a.args[0], hi, lo)
	}
	if a.op == OpZExt && lo >= a.args[0].w {
		return c.BV(0, w)
	}
	if a.op == OpConcat {
		lw := a.args[1].w
		if hi < lw {
			return c.Extract(a.args[1], hi, lo)
		}
		if lo >= lw {
			return c.Extract(a.args[0], hi-lw, lo-lw)
		}
	}
	k := termKey{op: OpExtract, w: w, a0: a.id, a1: -1, a2: -1, hi: hi, lo: lo}
	return c.mk(k, []*Term{a})
}

func (c *TermCtx) Concat(hi, lo *Term) *Term {
	if hi.IsConst() && lo.IsConst() && hi.w+lo.w <= 64 {
		return c.BV(hi.val<<uint(lo.w)|lo.val, hi.w+lo.w)
	}
	if hi.w+lo.w > 64 {
		panic("Concat: width > 64 unsupported")
	}
	if hi.IsConst() && hi.val == 0 {
		return c.ZExt(lo, hi.w+lo.w)
	}
	return c.node(OpConcat, hi.w+lo.w, hi, lo)
}

func (c *TermCtx) ZExt(a *Term, w int) *Term {
	if w == a.w {
		return a
	}
	if w < a.w {
		return c.Extract(a, w-1, 0)
	}
	if a.IsConst() {
		return c.BV(a.val, w)
	}
	if a.op == OpZExt {
		return c.ZExt(a.args[0], w)
	}
	k := termKey{op: OpZExt, w: w, a0: a.id, a1: -1, a2: -1, hi: w - a.w}
	return c.mk(k, []*Term{a})
}

func (c *TermCtx) SExt(a *Term, w int) *Term {
	if w == a.w {
		return a
	}
	if w < a.w {
		return c.Extract(a, w-1, 0)
	}
	if a.IsConst() {
		return c.BV(uint64(sext64(a.val, a.w)), w)
	}
	if a.op == OpZExt { // already non-negative
		return c.ZExt(a.args[0], w)
	}
	k := termKey{op: OpSExt, w: w, a0: a.id, a1: -1, a2: -1, hi: w - a.w}
	return c.mk(k, []*Term{a})
}

// Eval evaluates t under the assignment env (variable name -> value); unassigned variables are 0.
func (c *TermCtx) Eval(t *Term, env map[string]uint64, memo map[int]uint64) uint64 {
	if v, ok := memo[t.id]; ok {
		return v
	}
	var r uint64
	switch t.op {
	case OpConst:
		r = t.val
	case OpVar:
		r = env[t.name] & mask(max(t.w, 1))
	case OpAdd, OpSub, OpMul, OpUDiv, OpSDiv, OpURem, OpSRem, OpAnd, OpOr, OpXor, OpShl, OpLShr, OpAShr:
		r = evalBin(t.op, t.w, c.Eval(t.args[0], env, memo), c.Eval(t.args[1], env, memo))
	case OpNot:
		r = ^c.Eval(t.args[0], env, memo) & mask(t.w)
	case OpNeg:
		r = -c.Eval(t.args[0], env, memo) & mask(t.w)
	case OpExtract:
		r = (c.Eval(t.args[0], env, memo) >> uint(t.lo)) & mask(t.w)
	case OpConcat:
		r = c.Eval(t.args[0], env, memo)<<uint(t.args[1].w) | c.Eval(t.args[1], env, memo)
	case OpZExt:
		r = c.Eval(t.args[0], env, memo)
	case OpSExt:
		r = uint64(sext64(c.Eval(t.args[0], env, memo), t.args[0].w)) & mask(t.w)
	case OpIte:
		if c.Eval(t.args[0], env, memo) != 0 {
			r = c.Eval(t.args[1], env, memo)
		} else {
			r = c.Eval(t.args[2], env, memo)
		}
	case OpEq, OpUlt, OpUle, OpSlt, OpSle:
		if t.args[0].w == 0 {
			if c.Eval(t.args[0], env, memo) == c.Eval(t.args[1], env, memo) {
				r = 1
			}
		} else if evalCmp(t.op, t.args[0].w, c.Eval(t.args[0], env, memo), c.Eval(t.args[1], env, memo)) {
			r = 1
		}
	case OpBAnd:
		if c.Eval(t.args[0], env, memo) != 0 && c.Eval(t.args[1], env, memo) != 0 {
			r = 1
		}
	case OpBOr:
		if c.Eval(t.args[0], env, memo) != 0 || c.Eval(t.args[1], env, memo) != 0 {
			r = 1
		}
	case OpBNot:
		if c.Eval(t.args[0], env, memo) == 0 {
			r = 1
		}
	default:
		panic("Eval: bad op")
	}
	memo[t.id] = r
	return r
}

func sortOf(w int) string {
	if w == 0 {
		return "Bool"
	}
	return fmt.Sprintf("(_ BitVec %d)", w)
}

func constStr(t *Term) string {
	if t.w == 0 {
		if t.val == 1 {
			return "true"
		}
		return "false"
	}
	if t.w%4 == 0 {
		return fmt.Sprintf("#x%0*x", t.w/4, t.val)
	}
	return fmt.Sprintf("#b%0*b", t.w, t.val)
}

func (t *Term) ref() string {
	switch t.op {
	case OpConst:
		return constStr(t)
	case OpVar:
		return "|" + t.name + "|"
	}
	return fmt.Sprintf("t%d", t.id)
}

// body prints the defining expression of a non-leaf node in terms of refs of its children.
func (t *Term) body() string {
	switch t.op {
	case OpExtract:
		return fmt.Sprintf("((_ extract %d %d) %s)", t.hi, t.lo, t.args[0].ref())
	case OpZExt:
		return fmt.Sprintf("((_ zero_extend %d) %s)", t.hi, t.args[0].ref())
	case OpSExt:
		return fmt.Sprintf("((_ sign_extend %d) %s)", t.hi, t.args[0].ref())
	}
	var b strings.Builder
	b.WriteByte('(')
	b.WriteString(opNames[t.op])
	for _, a := range t.args {
		b.WriteByte(' ')
		b.WriteString(a.ref())
	}
	b.WriteByte(')')
	return b.String()
}

// String renders the term as a nested expression (for samples/debugging; may be large).
func (t *Term) String() string {
	return t.str(0)
}

func (t *Term) str(d int) string {
	if t.op == OpConst || t.op == OpVar {
		return t.ref()
	}
	if d > 6 {
		return "…"
	}
	switch t.op {
	case OpExtract:
		return fmt.Sprintf("((_ extract %d %d) %s)", t.hi, t.lo, t.args[0].str(d+1))
	case OpZExt:
		return fmt.Sprintf("(zext%d %s)", t.w, t.args[0].str(d+1))
	case OpSExt:
		return fmt.Sprintf("(sext%d %s)", t.w, t.args[0].str(d+1))
	}
	var b strings.Builder
	b.WriteByte('(')
	b.WriteString(opNames[t.op])
	for _, a := range t.args {
		b.WriteByte(' ')
		b.WriteString(a.str(d + 1))
	}
	b.WriteByte(')')
	return b.String()
}

var _ = bits.Len64
