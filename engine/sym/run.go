package sym

import (
	"fmt"
	"go/token"
	"go/types"
	"os"
	"runtime"
	"sort"
	"strings"
	"sync"
	"sync/atomic"
	"time"

	"golang.org/x/tools/go/ssa"
)

// HarnessConfig: bounds and options of one harness run.
type HarnessConfig struct {
	Config
	Workers          int
	MaxPaths         int
	SolverTimeout    time.Duration
	TimeBudget       time.Duration
	DiffSolvers      bool
	StopAtFirst      bool // stop at the first unlisted violation
	PathSolverBudget time.Duration
}

type Finding struct {
	Kind       string      `json:"kind"` // violation | panic | bound | deadlock
	Harness    string      `json:"harness"`
	AssertID   string      `json:"assert_id,omitempty"`
	Msg        string      `json:"msg"`
	Known      string      `json:"known,omitempty"`
	EngineOnly string      `json:"engine_only,omitempty"`
	Trace      string      `json:"trace"`
	Nondets    []NondetVal `json:"nondets"`
	Stack      string      `json:"stack,omitempty"`
	Pos        string      `json:"pos,omitempty"`
}

type HarnessResult struct {
	Harness      string
	Paths        int
	Outcomes     map[string]int
	Findings     []Finding
	Reached      map[string]int
	Funcs        map[string]bool
	Caveats      map[string]bool
	Asserts      int
	SymAsserts   int
	NontrivPaths int // paths that met at least one assertion with a symbolic operand
	Pending      int // unexplored prefixes left when a budget ran out
	Inconclusive []string
	Samples      []string
	Wall         time.Duration
	Queries      int
	MaxStepsSeen int
	Reports      []string
}

type worker struct {
	prog   *ssa.Program
	solver *Solver
	cfg    *HarnessConfig
	fn     *ssa.Function
	rtErr  types.Type
}

func (w *worker) runPath(prefix []decision) (res PathResult, pending [][]decision, funcs, caveats map[string]bool) {
	ctx := NewTermCtx()
	w.solver.Reset(ctx)
	ex := &Exec{ctx: ctx, solver: w.solver, trace: prefix, maxSteps: w.cfg.MaxSteps, maxDepth: w.cfg.MaxDepth, maxFrames: w.cfg.MaxFrames, solverBudget: w.cfg.PathSolverBudget}
	cfgCopy := w.cfg.Config
	i := &interpreter{
		prog: w.prog, ctx: ctx, ex: ex, cfg: &cfgCopy,
		globals: map[*ssa.Global]*value{}, inited: map[*ssa.Package]bool{},
		runtimeErrorString: w.rtErr,
		replace:            map[string]value{}, stubs: map[string]bool{}, funcs: map[string]bool{}, caveats: map[string]bool{},
		mutexes: map[*value]*mutexState{},
	}
	root := i.newThread()
	i.cur = root
	if os.Getenv("VERIF_SLOW_QUERIES") != "" {
		ex.slowHook = func(d time.Duration) {
			fmt.Fprintf(os.Stderr, "SLOW QUERY %.1fs at %s\n%s\n", d.Seconds(), i.posString(i.lastPos), i.stackString())
		}
	}
	func() {
		defer func() {
			r := recover()
			res.Steps = ex.steps
			switch r := r.(type) {
			case nil:
				res.Kind = oOK
			case pathEnd:
				res.Kind, res.Msg = r.kind, r.msg
				if r.kind == oViolation {
					res.AssertID = r.msg
				}
				if root.curFrame != nil {
					res.Stack = i.stackStringOf(root)
				}
			case targetPanic:
				res.Kind = oPanic
				res.Msg = i.panicMessage(r)
				if r.info != nil {
					res.Stack = r.info.pos + "\n" + r.info.stack
				}
			case engineError:
				res.Kind, res.Msg = oEngineError, r.msg
			default:
				buf := make([]byte, 8192)
				buf = buf[:runtime.Stack(buf, false)]
				res.Kind, res.Msg = oEngineError, fmt.Sprintf("%v at %s\n%s", r, i.posString(i.lastPos), buf)
			}
		}()
		i.call(nil, token.NoPos, w.fn, nil)
		i.quiesce()
	}()
	i.killThreads()
	res.Known = ex.known
	res.EngineOnly = ex.engineOnly
	res.Reports = ex.reports
	if len(i.threads) > 1 && (i.cfg.SpawnDeferred || i.cfg.Interleave) && res.EngineOnly == "" && res.Kind != oOK {
		res.EngineOnly = "schedule-dependent: goroutines of the code under test were scheduled by the engine (deferred / interleaving mode)"
	}
	res.Trace = ex.traceString()
	res.Reached = ex.reached
	res.Asserts = ex.asserts
	res.SymAsserts = ex.symAsserts
	switch res.Kind {
	case oViolation, oPanic, oBound, oDeadlock:
		if m, ok := ex.finalModel(); ok {
			res.Nondets = ex.nondetValues(m)
		} else if res.Kind == oViolation || res.Kind == oPanic || res.Kind == oDeadlock {
			// no model: the path condition is not known to be satisfiable
			res.Msg = "path condition not confirmed satisfiable: " + res.Msg
			res.Kind = oUnknown
		}
	}
	return res, ex.pending, i.funcs, i.caveats
}

func (i *interpreter) stackStringOf(th *thread) string {
	var sb strings.Builder
	n := 0
	for fr := th.curFrame; fr != nil && n < 16; fr = fr.caller {
		fmt.Fprintf(&sb, "%s\n", fr.fn)
		n++
	}
	return sb.String()
}

func (i *interpreter) panicMessage(tp targetPanic) string {
	switch v := tp.v.(type) {
	case iface:
		if v.t == nil {
			return "panic(nil)"
		}
		if s, ok := v.v.(string); ok {
			return s
		}
		// error values: try to render their message without running target code
		if p, ok := v.v.(*value); ok && p != nil {
			if st, ok := (*p).(structure); ok && len(st) > 0 {
				if s, ok := st[0].(string); ok {
					return fmt.Sprintf("%s: %s", v.t, s)
				}
			}
		}
		return fmt.Sprintf("panic(%s)", toString(v))
	}
	return toString(tp.v)
}

// RunHarness explores all paths of fn within the configured bounds.
func RunHarness(prog *ssa.Program, fn *ssa.Function, cfg *HarnessConfig) *HarnessResult {
	t0 := time.Now()
	hr := &HarnessResult{Harness: fn.Name(), Outcomes: map[string]int{}, Reached: map[string]int{}, Funcs: map[string]bool{}, Caveats: map[string]bool{}}
	rtPkg := prog.ImportedPackage("runtime")
	if rtPkg == nil {
		hr.Inconclusive = append(hr.Inconclusive, "runtime package not loaded")
		return hr
	}
	rtErr := rtPkg.Type("errorString").Object().Type()

	var mu sync.Mutex
	cond := sync.NewCond(&mu)
	stack := [][]decision{nil}
	active := 0
	stop := false
	deadline := t0.Add(cfg.TimeBudget)

	nw := cfg.Workers
	if nw <= 0 {
		nw = 1
	}
	var wg sync.WaitGroup
	doneCh := make(chan struct{})
	go func() {
		tk := time.NewTicker(15 * time.Second)
		defer tk.Stop()
		for {
			select {
			case <-doneCh:
				return
			case <-tk.C:
				mu.Lock()
				fmt.Fprintf(os.Stderr, "  [%s %.0fs] paths=%d pending=%d active=%d outcomes=%v queries=%d\n", fn.Name(), time.Since(t0).Seconds(), hr.Paths, len(stack), active, hr.Outcomes, atomic.LoadInt64(&GlobalStats.Queries))
				mu.Unlock()
			}
		}
	}()
	for k := 0; k < nw; k++ {
		wg.Add(1)
		go func() {
			defer wg.Done()
			solver, err := NewSolver(cfg.SolverTimeout)
			if err != nil {
				mu.Lock()
				hr.Inconclusive = append(hr.Inconclusive, "cannot start solver: "+err.Error())
				stop = true
				cond.Broadcast()
				mu.Unlock()
				return
			}
			solver.Diff = cfg.DiffSolvers
			defer solver.Close()
			w := &worker{prog: prog, solver: solver, cfg: cfg, fn: fn, rtErr: rtErr}
			for {
				mu.Lock()
				for len(stack) == 0 && active > 0 && !stop {
					cond.Wait()
				}
				if stop || len(stack) == 0 {
					mu.Unlock()
					cond.Broadcast()
					return
				}
				prefix := stack[len(stack)-1]
				stack = stack[:len(stack)-1]
				active++
				mu.Unlock()

				res, pending, funcs, caveats := w.runPath(prefix)

				mu.Lock()
				active--
				hr.Paths++
				hr.Outcomes[res.Kind.String()]++
				if res.Kind == oInfeasible && os.Getenv("VERIF_DEBUG_INFEASIBLE") != "" && hr.Outcomes["infeasible"] < 6 {
					fmt.Fprintf(os.Stderr, "INFEASIBLE %s at %s [%s]\n", res.Msg, res.Stack, res.Trace)
				}
				hr.Asserts += res.Asserts
				hr.SymAsserts += res.SymAsserts
				if res.SymAsserts > 0 {
					hr.NontrivPaths++
				}
				if res.Steps > hr.MaxStepsSeen {
					hr.MaxStepsSeen = res.Steps
				}
				for f := range funcs {
					hr.Funcs[f] = true
				}
				for c := range caveats {
					hr.Caveats[c] = true
				}
				if res.Kind == oOK {
					hr.Reports = append(hr.Reports, res.Reports...)
					for _, r := range res.Reached {
						hr.Reached[r]++
					}
				}
				if len(hr.Samples) < 6 && (res.Kind == oOK || res.Kind == oViolation || res.Kind == oPanic) {
					hr.Samples = append(hr.Samples, fmt.Sprintf("%s path=%s asserts=%d steps=%d", res.Kind, res.Trace, res.Asserts, res.Steps))
				}
				switch res.Kind {
				case oViolation, oPanic, oBound, oDeadlock:
					hr.Findings = append(hr.Findings, Finding{Kind: res.Kind.String(), Harness: fn.Name(), AssertID: res.AssertID,
						Msg: res.Msg, Known: res.Known, EngineOnly: res.EngineOnly, Trace: res.Trace, Nondets: res.Nondets, Stack: res.Stack})
					if (cfg.StopAtFirst || len(hr.Findings) >= 40) && res.Known == "" {
						stop = true // enough counterexamples: the check fails anyway
					}
				case oUnsupported, oUnknown, oEngineError:
					msg := res.Msg
					if len(msg) > 400 {
						msg = msg[:400] + "…"
					}
					hr.Inconclusive = append(hr.Inconclusive, fmt.Sprintf("%s: %s [path %s]", res.Kind, msg, res.Trace))
					if len(hr.Inconclusive) > 20 {
						stop = true
					}
				}
				stack = append(stack, pending...)
				if hr.Paths >= cfg.MaxPaths || time.Now().After(deadline) {
					stop = true
				}
				cond.Broadcast()
				mu.Unlock()
			}
		}()
	}
	wg.Wait()
	close(doneCh)
	hr.Pending = len(stack)
	if hr.Pending > 0 && len(hr.Findings) == 0 {
		hr.Inconclusive = append(hr.Inconclusive, fmt.Sprintf("exploration budget exhausted with %d unexplored prefixes (paths=%d)", hr.Pending, hr.Paths))
	}
	hr.Wall = time.Since(t0)
	sort.Slice(hr.Findings, func(a, b int) bool { return hr.Findings[a].Trace < hr.Findings[b].Trace })
	return hr
}

var _ = os.Stderr
