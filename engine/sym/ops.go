// Portions derived from golang.org/x/tools/go/ssa/interp (BSD-style license, The Go Authors).

package sym

import (
	"fmt"
	"go/constant"
	"go/token"
	"go/types"
	"math"
	"unicode/utf8"
	"unsafe"

	"golang.org/x/tools/go/ssa"
)

// If the target program panics, the interpreter panics with this type.
type targetPanic struct {
	v    value
	info *panicInfo
}

type panicInfo struct {
	stack string
	pos   string
}

func (p targetPanic) String() string {
	return toString(p.v)
}

// runtimeError builds the interface value of a runtime error (runtime.errorString implements runtime.Error).
func (i *interpreter) runtimeError(msg string) value {
	return iface{i.runtimeErrorString, "runtime error: " + msg}
}

func (i *interpreter) throw(msg string) {
	panic(targetPanic{v: i.runtimeError(msg)})
}

func (i *interpreter) unsupported(format string, args ...interface{}) {
	panic(pathEnd{oUnsupported, fmt.Sprintf(format, args...)})
}

// constValue returns the value of the constant with the dynamic type tag appropriate for c.Type().
func (i *interpreter) constValue(c *ssa.Const) value {
	if c.Value == nil {
		return i.zero(c.Type()) // typed zero
	}
	if t, ok := c.Type().Underlying().(*types.Basic); ok {
		switch t.Kind() {
		case types.Bool, types.UntypedBool:
			return i.mkBool(constant.BoolVal(c.Value))
		case types.Int, types.UntypedInt, types.Int8, types.Int16, types.Int32, types.UntypedRune, types.Int64:
			return i.mkInt(t.Kind(), c.Int64())
		case types.Uint, types.Uint8, types.Uint16, types.Uint32, types.Uint64, types.Uintptr:
			return i.mkInt(t.Kind(), int64(c.Uint64()))
		case types.Float32:
			return float32(c.Float64())
		case types.Float64, types.UntypedFloat:
			return c.Float64()
		case types.Complex64, types.Complex128, types.UntypedComplex:
			return c.Complex128()
		case types.String, types.UntypedString:
			if c.Value.Kind() == constant.String {
				return constant.StringVal(c.Value)
			}
			return string(rune(c.Int64()))
		}
	}
	panic(fmt.Sprintf("constValue: %s", c))
}

// zero returns a new "zero" value of the specified type.
func (i *interpreter) zero(t types.Type) value {
	switch t := t.(type) {
	case *types.Basic:
		if t.Kind() == types.UntypedNil {
			panic("untyped nil has no zero value")
		}
		if t.Info()&types.IsUntyped != 0 {
			t = types.Default(t).(*types.Basic)
		}
		switch t.Kind() {
		case types.Bool:
			return i.mkBool(false)
		case types.Int, types.Int8, types.Int16, types.Int32, types.Int64,
			types.Uint, types.Uint8, types.Uint16, types.Uint32, types.Uint64, types.Uintptr:
			return i.mkInt(t.Kind(), 0)
		case types.Float32:
			return float32(0)
		case types.Float64:
			return float64(0)
		case types.Complex64, types.Complex128:
			return complex128(0)
		case types.String:
			return ""
		case types.UnsafePointer:
			return unsafePtr{}
		default:
			panic(fmt.Sprint("zero for unexpected type:", t))
		}
	case *types.Pointer:
		return (*value)(nil)
	case *types.Array:
		a := make(array, t.Len())
		for j := range a {
			a[j] = i.zero(t.Elem())
		}
		return a
	case *types.Named:
		return i.zero(t.Underlying())
	case *types.Alias:
		return i.zero(types.Unalias(t))
	case *types.Interface:
		return iface{}
	case *types.Slice:
		return []value(nil)
	case *types.Struct:
		s := make(structure, t.NumFields())
		for j := range s {
			s[j] = i.zero(t.Field(j).Type())
		}
		return s
	case *types.Tuple:
		if t.Len() == 1 {
			return i.zero(t.At(0).Type())
		}
		s := make(tuple, t.Len())
		for j := range s {
			s[j] = i.zero(t.At(j).Type())
		}
		return s
	case *types.Chan:
		return (*schan)(nil)
	case *types.Map:
		return (*smap)(nil)
	case *types.Signature:
		return (*ssa.Function)(nil)
	case *types.TypeParam:
		panic("zero: type parameter (function not instantiated)")
	}
	panic(fmt.Sprint("zero: unexpected ", t))
}

// concInt forces an integer value to a concrete int64 by case splitting (bounded).
func (i *interpreter) concInt(v value, what string) int64 {
	x := v.(ival)
	if x.t.IsConst() {
		return x.i64()
	}
	u := i.ex.Concretize(x.t, i.cfg.ConcLimit, what)
	w, signed := kindInfo(x.k)
	if signed {
		return sext64(u, w)
	}
	return int64(u)
}

// as64 returns the 64-bit term of an integer value (sign- or zero-extended by kind).
func (i *interpreter) as64(v value) *Term {
	x := v.(ival)
	w, signed := kindInfo(x.k)
	if w == 64 {
		return x.t
	}
	if signed {
		return i.ctx.SExt(x.t, 64)
	}
	return i.ctx.ZExt(x.t, 64)
}

// checkIndex forks on idx being within [0,n) (panicking on the out-of-range side) and returns the 64-bit index term.
func (i *interpreter) checkIndex(idx value, n int, what string) *Term {
	t := i.as64(idx)
	c := i.ctx
	x := idx.(ival)
	_, signed := kindInfo(x.k)
	var inb *Term
	if signed {
		inb = c.And(c.Cmp(OpSle, c.BV(0, 64), t), c.Cmp(OpSlt, t, c.BV(uint64(n), 64)))
	} else {
		inb = c.Cmp(OpUlt, t, c.BV(uint64(n), 64))
	}
	if !i.ex.Branch(inb) {
		if t.IsConst() {
			i.throw(fmt.Sprintf("index out of range [%d] with length %d", int64(t.val), n))
		}
		i.throw(fmt.Sprintf("index out of range [symbolic] with length %d (%s)", n, what))
	}
	return t
}

// slice returns x[lo:hi:max].  Any of lo, hi and max may be nil.
func (i *interpreter) slice(x, lo, hi, max value) value {
	var Len, Cap int
	isStr := false
	switch x := x.(type) {
	case string, sstr:
		Len = strLen(x)
		Cap = Len
		isStr = true
	case []value:
		Len = len(x)
		Cap = cap(x)
	case *value: // *array
		if x == nil {
			i.throw("invalid memory address or nil pointer dereference")
		}
		a := (*x).(array)
		Len = len(a)
		Cap = cap(a)
	}
	c := i.ctx
	lt := c.BV(0, 64)
	if lo != nil {
		lt = i.as64(lo)
	}
	ht := c.BV(uint64(Len), 64)
	if hi != nil {
		ht = i.as64(hi)
	}
	mt := c.BV(uint64(Cap), 64)
	if max != nil {
		mt = i.as64(max)
	}
	// Go's check: 0 <= lo <= hi <= max <= cap (hi <= len for strings)
	ok := c.And(c.Cmp(OpSle, c.BV(0, 64), lt), c.And(c.Cmp(OpSle, lt, ht), c.And(c.Cmp(OpSle, ht, mt), c.Cmp(OpSle, mt, c.BV(uint64(Cap), 64)))))
	if !i.ex.Branch(ok) {
		i.throw(fmt.Sprintf("slice bounds out of range [%s:%s:%s] with capacity %d", termStr(lt), termStr(ht), termStr(mt), Cap))
	}
	l := int64(i.ex.Concretize(lt, i.cfg.ConcLimit, "slice low bound"))
	h := int64(i.ex.Concretize(ht, i.cfg.ConcLimit, "slice high bound"))
	m := int64(i.ex.Concretize(mt, i.cfg.ConcLimit, "slice max bound"))
	switch x := x.(type) {
	case string:
		return x[l:h]
	case sstr:
		return mkStr(x.b[l:h])
	case []value:
		return x[l:h:m]
	case *value: // *array
		a := (*x).(array)
		return []value(a)[l:h:m]
	}
	_ = isStr
	panic(fmt.Sprintf("slice: unexpected X type: %T", x))
}

func termStr(t *Term) string {
	if t.IsConst() {
		return fmt.Sprint(int64(t.val))
	}
	return "sym"
}

// lookup returns x[idx] where x is a map.
func (i *interpreter) lookup(instr *ssa.Lookup, x, idx value) value {
	switch x := x.(type) {
	case *smap:
		v, ok := i.mapLookup(x, idx)
		if !ok {
			v = i.zero(instr.X.Type().Underlying().(*types.Map).Elem())
		} else {
			v = copyVal(v)
		}
		if instr.CommaOk {
			v = tuple{v, i.mkBool(ok)}
		}
		return v
	case string, sstr:
		bs := i.strBytes(x)
		return i.indexValues(bs, idx, "string index")
	}
	panic(fmt.Sprintf("unexpected x type in Lookup: %T", x))
}

// indexValues returns elems[idx] with a bounds check; symbolic indices yield an ite-chain when mergeable.
func (i *interpreter) indexValues(elems []value, idx value, what string) value {
	t := i.checkIndex(idx, len(elems), what)
	if t.IsConst() {
		return copyVal(elems[t.val])
	}
	return i.selectValues(elems, t, what)
}

func (i *interpreter) selectValues(elems []value, t *Term, what string) value {
	c := i.ctx
	// build ite chain from the back
	res := copyVal(elems[len(elems)-1])
	okAll := true
	for j := len(elems) - 2; j >= 0; j-- {
		m, ok := i.merge(c.Cmp(OpEq, t, c.BV(uint64(j), 64)), elems[j], res)
		if !ok {
			okAll = false
			break
		}
		res = m
	}
	if okAll {
		return res
	}
	k := i.ex.Concretize(t, i.cfg.ConcLimit, what)
	return copyVal(elems[k])
}

func (i *interpreter) divCheck(y ival) {
	c := i.ctx
	w, _ := kindInfo(y.k)
	if i.ex.Branch(c.Cmp(OpEq, y.t, c.BV(0, w))) {
		i.throw("integer divide by zero")
	}
}

// binop implements all arithmetic and logical binary operators for numeric datatypes and strings.
func (i *interpreter) binop(op token.Token, t types.Type, x, y value) value {
	c := i.ctx
	switch op {
	case token.EQL:
		return ival{i.eqnil(t, x, y), types.Bool}
	case token.NEQ:
		return ival{c.Not(i.eqnil(t, x, y)), types.Bool}
	}
	switch xv := x.(type) {
	case ival:
		if op == token.SHL || op == token.SHR {
			return i.shift(op, xv, y.(ival))
		}
		yv := y.(ival)
		w, signed := kindInfo(xv.k)
		if w == 0 {
			// boolean operators (rare in SSA: &&,|| are control flow)
			switch op {
			case token.AND, token.LAND:
				return ival{c.And(xv.t, yv.t), types.Bool}
			case token.OR, token.LOR:
				return ival{c.Or(xv.t, yv.t), types.Bool}
			case token.XOR:
				return ival{c.Not(c.Cmp(OpEq, xv.t, yv.t)), types.Bool}
			}
			panic(fmt.Sprintf("invalid boolean binary op %s", op))
		}
		switch op {
		case token.ADD:
			return ival{c.Bin(OpAdd, xv.t, yv.t), xv.k}
		case token.SUB:
			return ival{c.Bin(OpSub, xv.t, yv.t), xv.k}
		case token.MUL:
			return ival{c.Bin(OpMul, xv.t, yv.t), xv.k}
		case token.QUO:
			i.divCheck(yv)
			if signed {
				return ival{c.Bin(OpSDiv, xv.t, yv.t), xv.k}
			}
			return ival{c.Bin(OpUDiv, xv.t, yv.t), xv.k}
		case token.REM:
			i.divCheck(yv)
			if signed {
				return ival{c.Bin(OpSRem, xv.t, yv.t), xv.k}
			}
			return ival{c.Bin(OpURem, xv.t, yv.t), xv.k}
		case token.AND:
			return ival{c.Bin(OpAnd, xv.t, yv.t), xv.k}
		case token.OR:
			return ival{c.Bin(OpOr, xv.t, yv.t), xv.k}
		case token.XOR:
			return ival{c.Bin(OpXor, xv.t, yv.t), xv.k}
		case token.AND_NOT:
			return ival{c.Bin(OpAnd, xv.t, c.Un(OpNot, yv.t)), xv.k}
		case token.LSS:
			if signed {
				return ival{c.Cmp(OpSlt, xv.t, yv.t), types.Bool}
			}
			return ival{c.Cmp(OpUlt, xv.t, yv.t), types.Bool}
		case token.LEQ:
			if signed {
				return ival{c.Cmp(OpSle, xv.t, yv.t), types.Bool}
			}
			return ival{c.Cmp(OpUle, xv.t, yv.t), types.Bool}
		case token.GTR:
			if signed {
				return ival{c.Cmp(OpSlt, yv.t, xv.t), types.Bool}
			}
			return ival{c.Cmp(OpUlt, yv.t, xv.t), types.Bool}
		case token.GEQ:
			if signed {
				return ival{c.Cmp(OpSle, yv.t, xv.t), types.Bool}
			}
			return ival{c.Cmp(OpUle, yv.t, xv.t), types.Bool}
		}
	case string, sstr:
		switch op {
		case token.ADD:
			if xs, ok := x.(string); ok {
				if ys, ok := y.(string); ok {
					return xs + ys
				}
			}
			bs := append(append([]value(nil), i.strBytes(x)...), i.strBytes(y)...)
			return mkStr(bs)
		case token.LSS:
			return ival{i.strLess(x, y), types.Bool}
		case token.GTR:
			return ival{i.strLess(y, x), types.Bool}
		case token.LEQ:
			return ival{c.Not(i.strLess(y, x)), types.Bool}
		case token.GEQ:
			return ival{c.Not(i.strLess(x, y)), types.Bool}
		}
	case float64:
		yv := y.(float64)
		switch op {
		case token.ADD:
			return xv + yv
		case token.SUB:
			return xv - yv
		case token.MUL:
			return xv * yv
		case token.QUO:
			return xv / yv
		case token.LSS:
			return i.mkBool(xv < yv)
		case token.LEQ:
			return i.mkBool(xv <= yv)
		case token.GTR:
			return i.mkBool(xv > yv)
		case token.GEQ:
			return i.mkBool(xv >= yv)
		}
	case float32:
		yv := y.(float32)
		switch op {
		case token.ADD:
			return xv + yv
		case token.SUB:
			return xv - yv
		case token.MUL:
			return xv * yv
		case token.QUO:
			return xv / yv
		case token.LSS:
			return i.mkBool(xv < yv)
		case token.LEQ:
			return i.mkBool(xv <= yv)
		case token.GTR:
			return i.mkBool(xv > yv)
		case token.GEQ:
			return i.mkBool(xv >= yv)
		}
	}
	panic(fmt.Sprintf("invalid binary op: %T %s %T", x, op, y))
}

func (i *interpreter) shift(op token.Token, x, y ival) value {
	c := i.ctx
	w, signed := kindInfo(x.k)
	yw, ysigned := kindInfo(y.k)
	if ysigned {
		if i.ex.Branch(c.Cmp(OpSlt, y.t, c.BV(0, yw))) {
			i.throw("negative shift amount")
		}
	}
	// bring the count to the operand width, saturating
	var cnt *Term
	var big *Term // count >= w
	if yw > w {
		big = c.Cmp(OpUle, c.BV(uint64(w), yw), y.t)
		cnt = c.Extract(y.t, w-1, 0)
	} else {
		cnt = c.ZExt(y.t, w)
		big = c.Cmp(OpUle, c.BV(uint64(w), w), cnt)
		if w >= 64 && yw < 64 {
			// count of narrower type can still be >= w only if representable; handled by the compare above
		}
	}
	switch op {
	case token.SHL:
		return ival{c.Ite(big, c.BV(0, w), c.Bin(OpShl, x.t, cnt)), x.k}
	case token.SHR:
		if signed {
			fill := c.Bin(OpAShr, x.t, c.BV(uint64(w-1), w))
			return ival{c.Ite(big, fill, c.Bin(OpAShr, x.t, cnt)), x.k}
		}
		return ival{c.Ite(big, c.BV(0, w), c.Bin(OpLShr, x.t, cnt)), x.k}
	}
	panic("shift: bad op")
}

// eqnil returns the comparison x == y using the equivalence relation appropriate for type t.
// If t is a reference type, at most one of x or y may be a nil value of that type.
func (i *interpreter) eqnil(t types.Type, x, y value) *Term {
	c := i.ctx
	switch t.Underlying().(type) {
	case *types.Map, *types.Signature, *types.Slice:
		switch x := x.(type) {
		case *smap:
			return c.Bool((x != nil) == (y.(*smap) != nil))
		case *ssa.Function:
			switch y := y.(type) {
			case *ssa.Function:
				return c.Bool((x != nil) == (y != nil))
			case *closure:
				return c.Bool(x != nil)
			case *ssa.Builtin:
				return c.Bool(x != nil)
			}
		case *closure:
			switch y := y.(type) {
			case *ssa.Function:
				return c.Bool(y != nil)
			case *closure:
				return c.Bool(x == y)
			}
		case []value:
			return c.Bool((x != nil) == (y.([]value) != nil))
		}
		panic(fmt.Sprintf("eqnil(%s): illegal dynamic type: %T", t, x))
	}
	return i.equalsT(t, x, y)
}

func (i *interpreter) deref(p value) *value {
	switch p := p.(type) {
	case *value:
		if p == nil {
			i.throw("invalid memory address or nil pointer dereference")
		}
		return p
	case *symptr:
		// fall back to case splitting
		k := i.ex.Concretize(p.idx, i.cfg.ConcLimit, "element address")
		return &p.base[k]
	}
	panic(fmt.Sprintf("deref: not a pointer: %T", p))
}

func (i *interpreter) loadPtr(T types.Type, p value) value {
	if sp, ok := p.(*symptr); ok {
		return i.selectValues(sp.base, sp.idx, "load through symbolic index")
	}
	return load(T, i.deref(p))
}

func (i *interpreter) storePtr(T types.Type, p value, v value) {
	if sp, ok := p.(*symptr); ok {
		c := i.ctx
		// guarded write to every cell, if mergeable
		news := make([]value, len(sp.base))
		okAll := true
		for j := range sp.base {
			m, ok := i.merge(c.Cmp(OpEq, sp.idx, c.BV(uint64(j), 64)), v, sp.base[j])
			if !ok {
				okAll = false
				break
			}
			news[j] = m
		}
		if okAll {
			for j := range sp.base {
				store(T, &sp.base[j], news[j])
			}
			return
		}
	}
	store(T, i.deref(p), v)
}

func (i *interpreter) unop(fr *frame, instr *ssa.UnOp, x value) value {
	c := i.ctx
	switch instr.Op {
	case token.ARROW: // receive
		v, ok := i.chanRecv(fr, x.(*schan), instr.X.Type().Underlying().(*types.Chan).Elem())
		if instr.CommaOk {
			return tuple{v, i.mkBool(ok)}
		}
		return v
	case token.SUB:
		switch x := x.(type) {
		case ival:
			return ival{c.Un(OpNeg, x.t), x.k}
		case float64:
			return -x
		case float32:
			return -x
		}
	case token.MUL:
		return i.loadPtr(mustDeref(instr.X.Type()), x)
	case token.NOT:
		return ival{c.Not(x.(ival).t), types.Bool}
	case token.XOR:
		xv := x.(ival)
		return ival{c.Un(OpNot, xv.t), xv.k}
	}
	panic(fmt.Sprintf("invalid unary op %s %T", instr.Op, x))
}

func mustDeref(t types.Type) types.Type {
	if p, ok := t.Underlying().(*types.Pointer); ok {
		return p.Elem()
	}
	panic(fmt.Sprintf("mustDeref: not a pointer type: %s", t))
}

// typeAssert checks whether dynamic type of itf is instr.AssertedType.
func (i *interpreter) typeAssert(instr *ssa.TypeAssert, itf iface) value {
	var v value
	err := ""
	if itf.t == nil {
		err = fmt.Sprintf("interface conversion: interface is nil, not %s", instr.AssertedType)
	} else if idst, ok := instr.AssertedType.Underlying().(*types.Interface); ok {
		v = itf
		err = i.checkInterface(idst, itf)
	} else if types.Identical(itf.t, instr.AssertedType) {
		v = itf.v // extract value
	} else {
		err = fmt.Sprintf("interface conversion: interface is %s, not %s", itf.t, instr.AssertedType)
	}
	if err != "" {
		if !instr.CommaOk {
			panic(targetPanic{v: iface{i.runtimeErrorString, err}})
		}
		return tuple{i.zero(instr.AssertedType), i.mkBool(false)}
	}
	if instr.CommaOk {
		return tuple{v, i.mkBool(true)}
	}
	return v
}

func (i *interpreter) checkInterface(itype *types.Interface, x iface) string {
	if meth, _ := types.MissingMethod(x.t, itype, true); meth != nil {
		return fmt.Sprintf("interface conversion: %v is not %v: missing method %s", x.t, itype, meth.Name())
	}
	return "" // ok
}

// callBuiltin interprets a call to builtin fn with arguments args, returning its result.
func (i *interpreter) callBuiltin(caller *frame, callpos token.Pos, fn *ssa.Builtin, args []value) value {
	switch fn.Name() {
	case "append":
		if len(args) == 1 {
			return args[0]
		}
		switch s := args[1].(type) {
		case string, sstr:
			arg0 := args[0].([]value)
			return append(arg0, i.strBytes(s)...)
		}
		src := args[1].([]value)
		dst := args[0].([]value)
		if len(src) == 0 {
			return dst
		}
		cp := make([]value, len(src))
		for j := range src {
			cp[j] = copyVal(src[j])
		}
		return append(dst, cp...)

	case "copy": // copy([]T, []T) int or copy([]byte, string) int
		var src []value
		switch s := args[1].(type) {
		case string, sstr:
			src = i.strBytes(s)
		default:
			src = s.([]value)
		}
		dst := args[0].([]value)
		n := len(src)
		if len(dst) < n {
			n = len(dst)
		}
		tmp := make([]value, n)
		for j := 0; j < n; j++ {
			tmp[j] = copyVal(src[j])
		}
		copy(dst, tmp)
		return i.mkInt(types.Int, int64(n))

	case "close": // close(chan T)
		i.chanClose(args[0].(*schan))
		return nil

	case "delete": // delete(map[K]value, K)
		i.mapDelete(args[0].(*smap), args[1])
		return nil

	case "clear":
		switch x := args[0].(type) {
		case *smap:
			if x != nil {
				x.keys, x.vals = nil, nil
			}
		case []value:
			if len(x) > 0 {
				et := fn.Type().(*types.Signature).Params().At(0).Type().Underlying().(*types.Slice).Elem()
				for j := range x {
					x[j] = i.zero(et)
				}
			}
		}
		return nil

	case "print", "println": // print(any, ...)
		return nil

	case "len":
		switch x := args[0].(type) {
		case string, sstr:
			return i.mkInt(types.Int, int64(strLen(x)))
		case array:
			return i.mkInt(types.Int, int64(len(x)))
		case *value:
			if x == nil {
				// len of nil *array is the static array length
				at := fn.Type().(*types.Signature).Params().At(0).Type().Underlying().(*types.Pointer).Elem().Underlying().(*types.Array)
				return i.mkInt(types.Int, at.Len())
			}
			return i.mkInt(types.Int, int64(len((*x).(array))))
		case []value:
			return i.mkInt(types.Int, int64(len(x)))
		case *smap:
			return i.mkInt(types.Int, int64(x.len()))
		case *schan:
			if x == nil {
				return i.mkInt(types.Int, 0)
			}
			return i.mkInt(types.Int, int64(len(x.buf)))
		default:
			panic(fmt.Sprintf("len: illegal operand: %T", x))
		}

	case "cap":
		switch x := args[0].(type) {
		case array:
			return i.mkInt(types.Int, int64(cap(x)))
		case *value:
			return i.mkInt(types.Int, int64(cap((*x).(array))))
		case []value:
			return i.mkInt(types.Int, int64(cap(x)))
		case *schan:
			if x == nil {
				return i.mkInt(types.Int, 0)
			}
			return i.mkInt(types.Int, int64(x.cap))
		default:
			panic(fmt.Sprintf("cap: illegal operand: %T", x))
		}

	case "min", "max":
		res := args[0]
		for _, a := range args[1:] {
			switch r := res.(type) {
			case ival:
				av := a.(ival)
				_, signed := kindInfo(r.k)
				op := OpUlt
				if signed {
					op = OpSlt
				}
				var cond *Term
				if fn.Name() == "min" {
					cond = i.ctx.Cmp(op, av.t, r.t)
				} else {
					cond = i.ctx.Cmp(op, r.t, av.t)
				}
				res = ival{i.ctx.Ite(cond, av.t, r.t), r.k}
			case float64:
				if fn.Name() == "min" {
					res = math.Min(r, a.(float64))
				} else {
					res = math.Max(r, a.(float64))
				}
			case string:
				as, ok := a.(string)
				if !ok {
					i.unsupported("min/max on symbolic strings")
				}
				if (fn.Name() == "min") == (as < r) {
					res = as
				}
			default:
				i.unsupported("min/max on %T", res)
			}
		}
		return res

	case "panic":
		panic(targetPanic{v: args[0]})

	case "recover":
		return doRecover(caller)

	case "ssa:wrapnilchk":
		recv := args[0]
		if p, ok := recv.(*value); ok && p == nil {
			recvType, _ := concreteString(args[1])
			methodName, _ := concreteString(args[2])
			panic(targetPanic{v: iface{i.runtimeErrorString, fmt.Sprintf("value method %s.%s called using nil *%s pointer", recvType, methodName, recvType)}})
		}
		return recv

	case "ssa:deferstack":
		return &caller.defers

	// unsafe.* builtins used by strings.Builder, strings.Clone, etc.
	case "SliceData":
		return dataPtr{elems: args[0].([]value)}
	case "StringData":
		return dataPtr{elems: i.strBytes(args[0]), str: true}
	case "String":
		n := int(i.concInt(args[1], "unsafe.String length"))
		switch p := args[0].(type) {
		case dataPtr:
			if n > len(p.elems) {
				i.throw("unsafe.String: len out of range")
			}
			return mkStr(p.elems[:n])
		case *value:
			if p == nil && n == 0 {
				return ""
			}
			if p != nil {
				// pointer to the first of n contiguous elements of a host backing array
				return mkStr(unsafe.Slice(p, n))
			}
		}
		i.unsupported("unsafe.String on %T", args[0])
	case "Slice":
		n := int(i.concInt(args[1], "unsafe.Slice length"))
		switch p := args[0].(type) {
		case dataPtr:
			if n > len(p.elems) {
				i.throw("unsafe.Slice: len out of range")
			}
			if p.str {
				return append([]value(nil), p.elems[:n]...)
			}
			return p.elems[:n:n]
		case *value:
			if p == nil && n == 0 {
				return []value(nil)
			}
			if p != nil {
				return unsafe.Slice(p, n)
			}
		}
		i.unsupported("unsafe.Slice on %T", args[0])
	}

	panic("unknown built-in: " + fn.Name())
}

// dataPtr is the result of unsafe.SliceData / unsafe.StringData.
type dataPtr struct {
	elems []value
	str   bool
}

type stringIter struct {
	bs  []value
	pos int
}

func (it *stringIter) next(i *interpreter) tuple {
	if it.pos >= len(it.bs) {
		return tuple{i.mkBool(false), nil, nil}
	}
	b0 := it.bs[it.pos].(ival)
	if b0.t.IsConst() && b0.t.val < utf8.RuneSelf {
		r := tuple{i.mkBool(true), i.mkInt(types.Int, int64(it.pos)), i.mkInt(types.Int32, int64(b0.t.val))}
		it.pos++
		return r
	}
	// need concrete bytes for multi-byte decoding; symbolic bytes are assumed ASCII (<0x80) by a fork
	if !b0.t.IsConst() {
		c := i.ctx
		if i.ex.Branch(c.Cmp(OpUlt, b0.t, c.BV(utf8.RuneSelf, 8))) {
			r := tuple{i.mkBool(true), i.mkInt(types.Int, int64(it.pos)), ival{c.ZExt(b0.t, 32), types.Int32}}
			it.pos++
			return r
		}
		i.unsupported("range over string with symbolic non-ASCII byte")
	}
	var buf []byte
	for j := it.pos; j < len(it.bs) && j < it.pos+4; j++ {
		b := it.bs[j].(ival)
		if !b.t.IsConst() {
			break
		}
		buf = append(buf, byte(b.t.val))
	}
	r, n := utf8.DecodeRune(buf)
	res := tuple{i.mkBool(true), i.mkInt(types.Int, int64(it.pos)), i.mkInt(types.Int32, int64(r))}
	it.pos += n
	return res
}

func (i *interpreter) rangeIter(x value, t types.Type) iter {
	switch x := x.(type) {
	case *smap:
		it := &mapIter{m: x}
		if x != nil {
			n := len(x.keys)
			order := make([]int, n)
			for j := range order {
				order[j] = j
			}
			if i.cfg.MapOrders && n >= 2 {
				if n <= 3 {
					perms := permutations(n)
					order = perms[i.ex.Choose(len(perms), "maporder")]
				} else {
					// rotation and direction only
					k := i.ex.Choose(2*n, "maporder")
					rot, rev := k%n, k >= n
					for j := range order {
						idx := (j + rot) % n
						if rev {
							idx = (rot - j + 2*n) % n
						}
						order[j] = idx
					}
				}
			}
			for _, j := range order {
				it.keys = append(it.keys, x.keys[j])
			}
		}
		return it
	case string, sstr:
		return &stringIter{bs: i.strBytes(x)}
	}
	panic(fmt.Sprintf("cannot range over %T", x))
}

// conv converts the value x of type t_src to type t_dst and returns the result.
func (i *interpreter) conv(t_dst, t_src types.Type, x value) value {
	ut_src := t_src.Underlying()
	ut_dst := t_dst.Underlying()
	c := i.ctx

	// Destination type is not an "untyped" type.
	if b, ok := ut_dst.(*types.Basic); ok && b.Info()&types.IsUntyped != 0 {
		panic("oops: conversion to 'untyped' type: " + b.String())
	}

	// Nor is it an interface type.
	if _, ok := ut_dst.(*types.Interface); ok {
		if _, ok := ut_src.(*types.Interface); ok {
			panic("oops: Convert should be ChangeInterface")
		} else {
			panic("oops: Convert should be MakeInterface")
		}
	}

	// Remaining conversions:
	//    + untyped string/number/bool constant to a specific representation.
	//    + conversions between non-complex numeric types.
	//    + conversions from string to []byte or []rune.
	//    + conversions from []byte or []rune to string.
	//    + conversions between pointers and unsafe.Pointer (unsupported beyond identity)

	switch ut_src := ut_src.(type) {
	case *types.Signature:
		return x

	case *types.Pointer:
		switch ut_dst := ut_dst.(type) {
		case *types.Basic:
			if ut_dst.Kind() == types.UnsafePointer {
				p, _ := x.(*value)
				return unsafePtr{p}
			}
		case *types.Pointer:
			return x
		}

	case *types.Slice:
		// []byte or []rune -> string
		switch ut_src.Elem().Underlying().(*types.Basic).Kind() {
		case types.Byte:
			xs := x.([]value)
			return mkStr(xs)
		case types.Rune:
			xs := x.([]value)
			var out []value
			for _, e := range xs {
				ev := e.(ival)
				if ev.t.IsConst() {
					out = append(out, i.strBytes(string(rune(ev.i64())))...)
					continue
				}
				// symbolic rune: case split on the UTF-8 length class (1 or 2 bytes); larger runes are concretised
				if i.ex.Branch(c.Cmp(OpUlt, ev.t, c.BV(0x80, 32))) {
					out = append(out, ival{c.Extract(ev.t, 7, 0), types.Uint8})
				} else if i.ex.Branch(c.Cmp(OpUlt, ev.t, c.BV(0x800, 32))) {
					hi := c.Bin(OpOr, c.BV(0xc0, 8), c.Extract(c.Bin(OpLShr, ev.t, c.BV(6, 32)), 7, 0))
					lo := c.Bin(OpOr, c.BV(0x80, 8), c.Bin(OpAnd, c.Extract(ev.t, 7, 0), c.BV(0x3f, 8)))
					out = append(out, ival{hi, types.Uint8}, ival{lo, types.Uint8})
				} else {
					r := rune(int32(i.ex.Concretize(ev.t, i.cfg.ConcLimit, "rune in []rune->string")))
					out = append(out, i.strBytes(string(r))...)
				}
			}
			return mkStr(out)
		}

	case *types.Basic:
		// unsafe.Pointer -> *value
		if ut_src.Kind() == types.UnsafePointer {
			if up, ok := x.(unsafePtr); ok {
				return up.p
			}
			i.unsupported("unsafe.Pointer conversion")
		}

		// string -> []rune, []byte or string?
		if ut_src.Info()&types.IsString != 0 {
			switch ut_dst := ut_dst.(type) {
			case *types.Slice:
				switch ut_dst.Elem().Underlying().(*types.Basic).Kind() {
				case types.Rune:
					s, ok := concreteString(x)
					if !ok {
						i.unsupported("symbolic string -> []rune")
					}
					var res []value
					for _, r := range s {
						res = append(res, i.mkInt(types.Int32, int64(r)))
					}
					return res
				case types.Byte:
					bs := i.strBytes(x)
					res := make([]value, len(bs))
					copy(res, bs)
					return res
				}
			case *types.Basic:
				if ut_dst.Kind() == types.String {
					return x
				}
			}
			break
		}

		// integer -> string (rune conversion)
		if dstB, ok := ut_dst.(*types.Basic); ok && dstB.Kind() == types.String {
			if xv, ok := x.(ival); ok {
				if !xv.t.IsConst() {
					i.unsupported("string(symbolic rune)")
				}
				return string(rune(xv.i64()))
			}
		}

		dstB, ok := ut_dst.(*types.Basic)
		if !ok {
			break
		}
		dk := dstB.Kind()
		// numeric conversions
		switch xv := x.(type) {
		case ival:
			if xv.k == types.Bool {
				if dk == types.Bool {
					return xv
				}
				break
			}
			if isIntKind(dk) {
				sw, ssigned := kindInfo(xv.k)
				dw, _ := kindInfo(dk)
				var t *Term
				switch {
				case dw == sw:
					t = xv.t
				case dw < sw:
					t = c.Extract(xv.t, dw-1, 0)
				case ssigned:
					t = c.SExt(xv.t, dw)
				default:
					t = c.ZExt(xv.t, dw)
				}
				return ival{t, normKind(dk)}
			}
			switch dk {
			case types.Float64, types.Float32:
				if !xv.t.IsConst() {
					i.unsupported("conversion of symbolic integer to float")
				}
				_, ssigned := kindInfo(xv.k)
				var f float64
				if ssigned {
					f = float64(xv.i64())
				} else {
					f = float64(xv.t.val)
				}
				if dk == types.Float32 {
					return float32(f)
				}
				return f
			}
		case float64:
			return i.convFloat(dk, xv)
		case float32:
			return i.convFloat(dk, float64(xv))
		case complex128:
			return xv
		}
	}

	panic(fmt.Sprintf("unsupported conversion: %s  -> %s, dynamic type %T", t_src, t_dst, x))
}

func (i *interpreter) convFloat(dk types.BasicKind, f float64) value {
	switch dk {
	case types.Float64:
		return f
	case types.Float32:
		return float32(f)
	}
	if isIntKind(dk) {
		_, signed := kindInfo(dk)
		if signed {
			return i.mkInt(dk, int64(f))
		}
		return i.mkInt(dk, int64(uint64(f)))
	}
	panic("convFloat: bad destination kind")
}

// sliceToArrayPointer converts the value x of type slice to type t_dst a pointer to array and returns the result.
func (i *interpreter) sliceToArrayPointer(t_dst, t_src types.Type, x value) value {
	if _, ok := t_src.Underlying().(*types.Slice); ok {
		if ptr, ok := t_dst.Underlying().(*types.Pointer); ok {
			if arr, ok := ptr.Elem().Underlying().(*types.Array); ok {
				x := x.([]value)
				if arr.Len() > int64(len(x)) {
					i.throw("array length is greater than slice length")
				}
				if x == nil {
					return (*value)(nil)
				}
				v := value(array(x[:arr.Len()]))
				return &v
			}
		}
	}
	panic(fmt.Sprintf("unsupported conversion: %s  -> %s, dynamic type %T", t_src, t_dst, x))
}
