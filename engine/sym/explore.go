package sym

// Path exploration by deterministic re-execution: a path is identified by its decision trace. A worker
// re-runs the harness from the start following a given prefix (no solver queries, only assertions), then
// at every new symbolic branch asks the solver which sides are feasible, continues on one and queues the other.

import (
	"fmt"
	"sort"
	"strings"
	"time"
)

type decKind uint8

const (
	dBranch decKind = iota // symbolic boolean branch: b
	dChoose                // concrete nondeterministic choice among n: n, val
	dConc                  // concretisation of a symbolic value: val, with excl values excluded
)

type decision struct {
	kind decKind
	b    bool
	n    int
	val  uint64
	excl []uint64
	open bool // dConc only: val not yet chosen (to be resolved by the solver, excluding excl)
}

func (d decision) String() string {
	switch d.kind {
	case dBranch:
		if d.b {
			return "T"
		}
		return "F"
	case dChoose:
		return fmt.Sprintf("c%d/%d", d.val, d.n)
	default:
		if d.open {
			return fmt.Sprintf("v?-%d", len(d.excl))
		}
		return fmt.Sprintf("v%d", d.val)
	}
}

type outcomeKind int

const (
	oOK          outcomeKind = iota // ran to the end of the harness
	oInfeasible                     // path condition became unsatisfiable (assume / exhausted concretisation)
	oViolation                      // assertion failed (with model)
	oPanic                          // uncaught target panic (with model)
	oBound                          // step / depth / unwinding bound exceeded
	oDeadlock                       // all threads blocked
	oUnsupported                    // engine cannot model something on this path
	oUnknown                        // solver returned unknown for a needed query
	oEngineError                    // internal error of the engine
)

var outcomeNames = [...]string{"ok", "infeasible", "violation", "panic", "bound", "deadlock", "unsupported", "unknown", "engine-error"}

func (k outcomeKind) String() string { return outcomeNames[k] }

// pathEnd is panicked through the interpreter to terminate the current path.
type pathEnd struct {
	kind outcomeKind
	msg  string
}

type nondetRec struct {
	Tag  string
	Kind string // i64,u64,...,bool,byte,len,choice
	term *Term  // nil for concrete choices
	val  uint64 // for concrete choices
}

type NondetVal struct {
	Tag  string `json:"tag"`
	Kind string `json:"kind"`
	Val  uint64 `json:"val"`
}

// PathResult summarises one explored path.
type PathResult struct {
	Kind       outcomeKind
	Msg        string
	AssertID   string
	Known      string // known-finding class active on this path ("" if none)
	EngineOnly string
	Reports    []string
	Trace      string
	Nondets    []NondetVal
	Reached    []string
	Asserts    int // assertion obligations met on this path
	SymAsserts int
	Steps      int
	Stack      string
	Funcs      map[string]bool
}

type Exec struct {
	ctx    *TermCtx
	solver *Solver
	pc     []*Term

	trace []decision
	pos   int

	model      map[string]uint64
	modelValid bool

	pending [][]decision

	nondets    []nondetRec
	reached    []string
	known      string
	engineOnly string
	reports    []string
	asserts    int
	symAsserts int

	steps     int
	maxSteps  int
	maxDepth  int // max symbolic decisions per path
	maxFrames int
	frames    int

	queries      int
	slowHook     func(time.Duration)
	solverSpent  time.Duration
	solverBudget time.Duration
}

func (e *Exec) end(kind outcomeKind, format string, args ...interface{}) {
	panic(pathEnd{kind, fmt.Sprintf(format, args...)})
}

func (e *Exec) assertPC(t *Term) {
	e.pc = append(e.pc, t)
	e.solver.Assert(t)
}

func (e *Exec) evalModel(t *Term) bool {
	memo := map[int]uint64{}
	return e.ctx.Eval(t, e.model, memo) != 0
}

func (e *Exec) check(extra *Term) (Result, map[string]uint64) {
	e.queries++
	if e.solverBudget > 0 && e.solverSpent > e.solverBudget {
		e.end(oUnknown, "per-path solver time budget (%v) exhausted after %d queries", e.solverBudget, e.queries)
	}
	t0 := time.Now()
	r, m, err := e.solver.Check(extra, true)
	e.solverSpent += time.Since(t0)
	if d := time.Since(t0); d > 2*time.Second && e.slowHook != nil {
		e.slowHook(d)
	}
	if err == nil && r == Sat {
		// never trust a model blindly: it must satisfy the path condition and the queried condition
		memo := map[int]uint64{}
		bad := extra != nil && e.ctx.Eval(extra, m, memo) == 0
		for _, c := range e.pc {
			if bad {
				break
			}
			bad = e.ctx.Eval(c, m, memo) == 0
		}
		if bad {
			e.end(oUnknown, "solver model does not satisfy the path condition (model parse or solver defect)")
		}
	}
	if err != nil {
		e.end(oUnknown, "solver: %v", err)
	}
	return r, m
}

func (e *Exec) snapshotPrefix(d decision) []decision {
	p := make([]decision, e.pos, e.pos+1)
	copy(p, e.trace[:e.pos])
	return append(p, d)
}

// Branch decides a symbolic condition; returns the side taken on this path.
func (e *Exec) Branch(c *Term) bool {
	if c.IsConst() {
		return c.val != 0
	}
	if e.pos < len(e.trace) {
		d := e.trace[e.pos]
		if d.kind != dBranch {
			e.end(oEngineError, "non-deterministic re-execution: expected %v at %d, got branch", d, e.pos)
		}
		e.pos++
		if d.b {
			e.assertPC(c)
		} else {
			e.assertPC(e.ctx.Not(c))
		}
		e.modelValid = false
		return d.b
	}
	if len(e.trace) >= e.maxDepth {
		e.end(oBound, "more than %d symbolic decisions on one path", e.maxDepth)
	}
	nc := e.ctx.Not(c)
	var side bool
	if e.modelValid {
		side = e.evalModel(c)
		// the other side needs a query
		other := nc
		if !side {
			other = c
		}
		r, m := e.check(other)
		switch r {
		case Sat:
			e.pending = append(e.pending, e.snapshotPrefix(decision{kind: dBranch, b: !side}))
			_ = m
		case Unknown:
			// never prune on unknown: keep the side, mark later queries
			e.pending = append(e.pending, e.snapshotPrefix(decision{kind: dBranch, b: !side}))
		}
	} else {
		r, m := e.check(c)
		switch r {
		case Sat:
			e.model, e.modelValid = m, true
			r2, _ := e.check(nc)
			if r2 != Unsat {
				e.pending = append(e.pending, e.snapshotPrefix(decision{kind: dBranch, b: false}))
			}
			side = true
		case Unsat:
			// pc is satisfiable by invariant, so ¬c is feasible; the model is recomputed lazily
			side = false
		default:
			r2, m2 := e.check(nc)
			if r2 == Unsat {
				side = true // c must be the feasible side
			} else {
				// keep both
				e.pending = append(e.pending, e.snapshotPrefix(decision{kind: dBranch, b: false}))
				side = true
				if r2 == Sat {
					_ = m2
				}
			}
		}
	}
	e.trace = append(e.trace, decision{kind: dBranch, b: side})
	e.pos++
	if side {
		e.assertPC(c)
	} else {
		e.assertPC(nc)
	}
	// model stays valid iff it satisfies the side taken
	if e.modelValid && e.evalModel(c) != side {
		e.modelValid = false
	}
	return side
}

// Choose makes a concrete nondeterministic choice among n alternatives (all feasible by construction).
func (e *Exec) Choose(n int, tag string) int {
	if n <= 1 {
		return 0
	}
	if e.pos < len(e.trace) {
		d := e.trace[e.pos]
		if d.kind != dChoose || d.n != n {
			e.end(oEngineError, "non-deterministic re-execution: expected %v at %d, got choose/%d", d, e.pos, n)
		}
		e.pos++
		e.nondets = append(e.nondets, nondetRec{Tag: tag, Kind: "choice", val: d.val})
		return int(d.val)
	}
	if len(e.trace) >= e.maxDepth {
		e.end(oBound, "more than %d decisions on one path", e.maxDepth)
	}
	for k := n - 1; k >= 1; k-- {
		e.pending = append(e.pending, e.snapshotPrefix(decision{kind: dChoose, n: n, val: uint64(k)}))
	}
	e.trace = append(e.trace, decision{kind: dChoose, n: n, val: 0})
	e.pos++
	e.nondets = append(e.nondets, nondetRec{Tag: tag, Kind: "choice", val: 0})
	return 0
}

// Concretize case-splits a symbolic term over its feasible values; returns the value on this path.
func (e *Exec) Concretize(t *Term, limit int, what string) uint64 {
	if t.IsConst() {
		return t.val
	}
	var d decision
	replay := e.pos < len(e.trace)
	if replay {
		d = e.trace[e.pos]
		if d.kind != dConc {
			e.end(oEngineError, "non-deterministic re-execution: expected %v at %d, got concretize", d, e.pos)
		}
	} else {
		if len(e.trace) >= e.maxDepth {
			e.end(oBound, "more than %d decisions on one path", e.maxDepth)
		}
		d = decision{kind: dConc, open: true}
	}
	// exclusions first
	for _, x := range d.excl {
		e.assertPC(e.ctx.Not(e.ctx.Cmp(OpEq, t, e.ctx.BV(x, t.w))))
	}
	if len(d.excl) > 0 {
		e.modelValid = false
	}
	if d.open {
		if len(d.excl) >= limit {
			e.end(oBound, "concretisation of %s needs more than %d cases", what, limit)
		}
		var v uint64
		if e.modelValid {
			v = e.ctx.Eval(t, e.model, map[int]uint64{})
		} else {
			r, m := e.check(nil)
			switch r {
			case Unsat:
				e.end(oInfeasible, "no more values for %s", what)
			case Unknown:
				e.end(oUnknown, "solver unknown while concretising %s", what)
			}
			e.model, e.modelValid = m, true
			v = e.ctx.Eval(t, e.model, map[int]uint64{})
		}
		d.open = false
		d.val = v
		// sibling: everything else -- only if some other value is feasible (one query saves a whole re-execution)
		sib := decision{kind: dConc, open: true, excl: append(append([]uint64(nil), d.excl...), v)}
		if r, _ := e.check(e.ctx.Not(e.ctx.Cmp(OpEq, t, e.ctx.BV(v, t.w)))); r == Unsat {
			if replay {
				e.trace[e.pos] = d
			} else {
				e.trace = append(e.trace, d)
			}
		} else if replay {
			e.trace[e.pos] = d
			p := make([]decision, e.pos, e.pos+1)
			copy(p, e.trace[:e.pos])
			e.pending = append(e.pending, append(p, sib))
		} else {
			e.pending = append(e.pending, e.snapshotPrefix(sib))
			e.trace = append(e.trace, d)
		}
	}
	e.pos++
	eq := e.ctx.Cmp(OpEq, t, e.ctx.BV(d.val, t.w))
	e.assertPC(eq)
	if e.modelValid && !e.evalModel(eq) {
		e.modelValid = false
	}
	return d.val
}

// Assume adds a constraint; ends the path if it makes the path condition unsatisfiable.
func (e *Exec) Assume(c *Term) {
	if c.IsConst() {
		if c.val == 0 {
			e.end(oInfeasible, "assume(false)")
		}
		return
	}
	frontier := e.pos >= len(e.trace)
	e.assertPC(c)
	if e.modelValid && e.evalModel(c) {
		return
	}
	e.modelValid = false
	if !frontier {
		return // feasibility of the prefix was established when it was first explored
	}
	r, m := e.check(nil)
	switch r {
	case Unsat:
		e.end(oInfeasible, "assumption unsatisfiable")
	case Sat:
		e.model, e.modelValid = m, true
	}
}

// finalModel returns a model of the path condition.
func (e *Exec) finalModel() (map[string]uint64, bool) {
	if e.modelValid {
		return e.model, true
	}
	r, m, err := e.solver.Check(nil, true)
	if err != nil || r != Sat {
		return nil, false
	}
	e.model, e.modelValid = m, true
	return m, true
}

func (e *Exec) traceString() string {
	var sb strings.Builder
	for _, d := range e.trace[:min(e.pos, len(e.trace))] {
		sb.WriteString(d.String())
		if d.kind != dBranch {
			sb.WriteByte('.')
		}
	}
	return sb.String()
}

func (e *Exec) nondetValues(model map[string]uint64) []NondetVal {
	memo := map[int]uint64{}
	var out []NondetVal
	for _, n := range e.nondets {
		v := n.val
		if n.term != nil {
			v = e.ctx.Eval(n.term, model, memo)
		}
		out = append(out, NondetVal{n.Tag, n.Kind, v})
	}
	return out
}

func sortedKeys(m map[string]bool) []string {
	var r []string
	for k := range m {
		r = append(r, k)
	}
	sort.Strings(r)
	return r
}
