package sym

// fmt and errors intrinsics. Formatting is done natively on concretised operands; symbolic operands are rendered
// as a placeholder (the message text of an error never influences control flow in the code under test; where a
// formatted string does matter — footers — the harness-visible intrinsic hexFixed is exact).

import (
	"fmt"
	"go/types"
	"io"
	"os"
	"strings"

	"golang.org/x/tools/go/ssa"
)

var traceOut io.Writer = os.Stderr

type nativeErr struct{ msg string }

func (e nativeErr) Error() string { return e.msg }

type nativeStringer struct{ s string }

func (e nativeStringer) String() string { return e.s }

const symPlaceholder = "‹sym›"

func (i *interpreter) toNative(fr *frame, v value, depth int) interface{} {
	switch x := v.(type) {
	case nil:
		return nil
	case ival:
		if !x.t.IsConst() {
			// a symbolic operand whose value is uniquely determined by the path condition is rendered exactly
			u, ok := i.pinnedValue(x.t)
			if !ok {
				return nativeStringer{symPlaceholder}
			}
			x = ival{i.ctx.BV(u, max(x.t.w, 1)), x.k}
			if x.k == types.Bool {
				return u != 0
			}
		}
		switch x.k {
		case types.Bool:
			return x.t.val != 0
		case types.Int:
			return int(x.i64())
		case types.Int8:
			return int8(x.i64())
		case types.Int16:
			return int16(x.i64())
		case types.Int32:
			return int32(x.i64())
		case types.Int64:
			return x.i64()
		case types.Uint:
			return uint(x.t.val)
		case types.Uint8:
			return uint8(x.t.val)
		case types.Uint16:
			return uint16(x.t.val)
		case types.Uint32:
			return uint32(x.t.val)
		case types.Uint64:
			return x.t.val
		case types.Uintptr:
			return uintptr(x.t.val)
		}
		return x.i64()
	case string:
		return x
	case sstr:
		var sb strings.Builder
		for _, b := range x.b {
			bv := b.(ival)
			if bv.t.IsConst() {
				sb.WriteByte(byte(bv.t.val))
			} else {
				sb.WriteByte('?')
			}
		}
		return sb.String()
	case float64, float32, complex128:
		return x
	case iface:
		if x.t == nil {
			return nil
		}
		if depth < 3 {
			if f := i.hasMethod(x.t, "Error"); f != nil && f.Signature.Params().Len() == 0 {
				// Error() methods are not interpreted: message formatting is the classic source of path explosion and
				// the text of an error never decides control flow in the code under test.
				return nativeErr{"<" + x.t.String() + ">"}
			}
			if f := i.hasMethod(x.t, "String"); f != nil && f.Signature.Params().Len() == 0 && f.Signature.Results().Len() == 1 {
				if p, ok := x.v.(*value); ok && p == nil {
					return nativeStringer{"<nil>"}
				}
				r := i.call(fr, fr.fn.Pos(), f, []value{x.v})
				return nativeStringer{fmt.Sprint(i.toNative(fr, r, depth+1))}
			}
		}
		return i.toNative(fr, x.v, depth+1)
	case []value:
		allBytes := len(x) > 0
		for _, e := range x {
			if ev, ok := e.(ival); !ok || ev.k != types.Uint8 {
				allBytes = false
				break
			}
		}
		if allBytes {
			b := make([]byte, len(x))
			for j, e := range x {
				ev := e.(ival)
				if ev.t.IsConst() {
					b[j] = byte(ev.t.val)
				} else {
					b[j] = '?'
				}
			}
			return b
		}
		r := make([]interface{}, len(x))
		for j, e := range x {
			r[j] = i.toNative(fr, e, depth+1)
		}
		return r
	case *value:
		if x == nil {
			return nil
		}
		return nativeStringer{"0xc000010000"}
	}
	return nativeStringer{toString(v)}
}

func (i *interpreter) sprintf(fr *frame, format string, args []value) string {
	nat := make([]interface{}, len(args))
	for j, a := range args {
		nat[j] = i.toNative(fr, a, 0)
	}
	return fmt.Sprintf(format, nat...)
}

func extSprintf(fr *frame, a []value) value {
	i := fr.i
	format := i.argStr(a[0], "format string")
	var args []value
	if len(a) > 1 {
		args, _ = a[1].([]value)
	}
	// exact rendering of the footer idiom "%016x" with symbolic operands
	if strings.Contains(format, "%016x") && hasSymbolic(args) {
		return i.sprintfHex16(fr, format, args)
	}
	if hasSymbolicString(args) {
		return i.sprintfSymStrings(fr, format, args)
	}
	return i.sprintf(fr, format, args)
}

func hasSymbolic(args []value) bool {
	for _, a := range args {
		if f, ok := a.(iface); ok {
			if x, ok := f.v.(ival); ok && !x.t.IsConst() {
				return true
			}
		}
	}
	return false
}

// sprintfHex16 handles formats made only of literal text and %016x verbs.
func (i *interpreter) sprintfHex16(fr *frame, format string, args []value) value {
	var out []value
	ai := 0
	for k := 0; k < len(format); {
		if strings.HasPrefix(format[k:], "%016x") {
			if ai >= len(args) {
				i.unsupported("format %q: missing operand", format)
			}
			x, ok := args[ai].(iface).v.(ival)
			if !ok {
				i.unsupported("format %q: non-integer operand", format)
			}
			ai++
			if _, signed := kindInfo(x.k); signed {
				w, _ := kindInfo(x.k)
				if i.ex.Branch(i.ctx.Cmp(OpSlt, x.t, i.ctx.BV(0, w))) {
					i.unsupported("%%016x of a negative symbolic integer")
				}
			}
			out = append(out, i.strBytes(i.hexFixed(x, 16))...)
			k += 5
			continue
		}
		if format[k] == '%' {
			i.unsupported("format %q with symbolic operands: only %%016x is rendered exactly", format)
		}
		out = append(out, i.mkByte(format[k]))
		k++
	}
	return mkStr(out)
}

func extSprint(fr *frame, a []value) value {
	i := fr.i
	args, _ := a[0].([]value)
	nat := make([]interface{}, len(args))
	for j, x := range args {
		nat[j] = i.toNative(fr, x, 0)
	}
	return fmt.Sprint(nat...)
}

// verbOperands returns, for each verb in format (in order), the verb character.
func verbOperands(format string) []byte {
	var verbs []byte
	for k := 0; k < len(format); k++ {
		if format[k] != '%' {
			continue
		}
		k++
		for k < len(format) && strings.IndexByte("+-# 0123456789.*[]", format[k]) >= 0 {
			k++
		}
		if k < len(format) {
			if format[k] != '%' {
				verbs = append(verbs, format[k])
			}
		}
	}
	return verbs
}

func (i *interpreter) pkgType(pkg, name string) types.Type {
	p := i.prog.ImportedPackage(pkg)
	if p == nil {
		i.unsupported("package %s is not part of the loaded program", pkg)
	}
	t := p.Type(name)
	if t == nil {
		i.unsupported("type %s.%s not found", pkg, name)
	}
	return t.Type()
}

func (i *interpreter) newErrorString(msg string) value {
	t := i.pkgType("errors", "errorString")
	var cell value = structure{msg}
	return iface{types.NewPointer(t), &cell}
}

func extErrorf(fr *frame, a []value) value {
	i := fr.i
	format := i.argStr(a[0], "format string")
	var args []value
	if len(a) > 1 {
		args, _ = a[1].([]value)
	}
	verbs := verbOperands(format)
	var wrapped []value
	for k, v := range verbs {
		if v == 'w' && k < len(args) {
			if e, ok := args[k].(iface); ok && e.t != nil {
				wrapped = append(wrapped, e)
			}
		}
	}
	// the message is the format string itself (operands are not rendered, see toNative)
	msg := format
	switch len(wrapped) {
	case 0:
		return i.newErrorString(msg)
	case 1:
		t := i.pkgType("fmt", "wrapError")
		var cell value = structure{msg, wrapped[0]}
		return iface{types.NewPointer(t), &cell}
	default:
		t := i.pkgType("fmt", "wrapErrors")
		var cell value = structure{msg, wrapped}
		return iface{types.NewPointer(t), &cell}
	}
}

// ---- errors.Is / As / Join --------------------------------------------------------------------------------

func (i *interpreter) unwrapAll(fr *frame, err iface) []iface {
	if f := i.hasMethod(err.t, "Unwrap"); f != nil && f.Signature.Params().Len() == 0 && f.Signature.Results().Len() == 1 {
		r := i.call(fr, fr.fn.Pos(), f, []value{err.v})
		switch r := r.(type) {
		case iface:
			if r.t != nil {
				return []iface{r}
			}
		case []value:
			var out []iface
			for _, e := range r {
				if ei := e.(iface); ei.t != nil {
					out = append(out, ei)
				}
			}
			return out
		}
	}
	return nil
}

func (i *interpreter) errorsIs(fr *frame, err, target iface, depth int) bool {
	if err.t == nil || target.t == nil {
		return err.t == nil && target.t == nil
	}
	if depth > 32 {
		i.ex.end(oBound, "errors.Is: unwrap chain deeper than 32")
	}
	if types.Comparable(target.t) && sameType(err.t, target.t) {
		if i.ex.Branch(i.equalsT(target.t, err.v, target.v)) {
			return true
		}
	}
	if f := i.hasMethod(err.t, "Is"); f != nil && f.Signature.Params().Len() == 1 {
		r := i.call(fr, fr.fn.Pos(), f, []value{err.v, target})
		if b, ok := r.(ival); ok && i.ex.Branch(b.t) {
			return true
		}
	}
	for _, e := range i.unwrapAll(fr, err) {
		if i.errorsIs(fr, e, target, depth+1) {
			return true
		}
	}
	return false
}

func extErrorsIs(fr *frame, a []value) value {
	i := fr.i
	return i.mkBool(i.errorsIs(fr, a[0].(iface), a[1].(iface), 0))
}

func (i *interpreter) errorsAs(fr *frame, err iface, targetPtr *value, targetType types.Type, depth int) bool {
	if err.t == nil {
		return false
	}
	if depth > 32 {
		i.ex.end(oBound, "errors.As: unwrap chain deeper than 32")
	}
	if types.AssignableTo(err.t, targetType) {
		if _, isIface := targetType.Underlying().(*types.Interface); isIface {
			*targetPtr = err
		} else {
			*targetPtr = err.v
		}
		return true
	}
	if f := i.hasMethod(err.t, "As"); f != nil && f.Signature.Params().Len() == 1 {
		r := i.call(fr, fr.fn.Pos(), f, []value{err.v, iface{types.NewPointer(targetType), targetPtr}})
		if b, ok := r.(ival); ok && i.ex.Branch(b.t) {
			return true
		}
	}
	for _, e := range i.unwrapAll(fr, err) {
		if i.errorsAs(fr, e, targetPtr, targetType, depth+1) {
			return true
		}
	}
	return false
}

func extErrorsAs(fr *frame, a []value) value {
	i := fr.i
	tgt := a[1].(iface)
	if tgt.t == nil {
		panic(targetPanic{v: iface{i.runtimeErrorString, "errors: target cannot be nil"}})
	}
	pt, ok := tgt.t.Underlying().(*types.Pointer)
	if !ok {
		panic(targetPanic{v: iface{i.runtimeErrorString, "errors: target must be a non-nil pointer"}})
	}
	p := tgt.v.(*value)
	return i.mkBool(i.errorsAs(fr, a[0].(iface), p, pt.Elem(), 0))
}

func extErrorsJoin(fr *frame, a []value) value {
	i := fr.i
	errs, _ := a[0].([]value)
	var nonNil []value
	for _, e := range errs {
		if e.(iface).t != nil {
			nonNil = append(nonNil, e)
		}
	}
	if len(nonNil) == 0 {
		return iface{}
	}
	t := i.pkgType("errors", "joinError")
	var cell value = structure{nonNil}
	return iface{types.NewPointer(t), &cell}
}

var _ = ssa.NewProgram

func hasSymbolicString(args []value) bool {
	for _, a := range args {
		if f, ok := a.(iface); ok {
			if _, ok := f.v.(sstr); ok {
				return true
			}
		}
	}
	return false
}

// sprintfSymStrings renders formats made of literal text and plain %s / %v / %d verbs exactly, keeping symbolic
// string operands symbolic (byte for byte). Anything else with a symbolic string operand is unsupported.
func (i *interpreter) sprintfSymStrings(fr *frame, format string, args []value) value {
	var out []value
	ai := 0
	for k := 0; k < len(format); k++ {
		if format[k] != '%' {
			out = append(out, i.mkByte(format[k]))
			continue
		}
		k++
		if k >= len(format) {
			i.unsupported("format %q: trailing %%", format)
		}
		switch format[k] {
		case '%':
			out = append(out, i.mkByte('%'))
		case 's', 'v', 'd':
			if ai >= len(args) {
				i.unsupported("format %q: missing operand", format)
			}
			a := args[ai].(iface)
			ai++
			switch v := a.v.(type) {
			case string, sstr:
				out = append(out, i.strBytes(v)...)
			default:
				out = append(out, i.strBytes(fmt.Sprint(i.toNative(fr, a, 0)))...)
				if x, ok := a.v.(ival); ok && !x.t.IsConst() {
					i.unsupported("format %q: symbolic integer operand next to a symbolic string", format)
				}
			}
		default:
			i.unsupported("format %q with a symbolic string operand: only %%s %%v %%d are rendered exactly", format)
		}
	}
	return mkStr(out)
}


// pinnedValue returns the value of t if the path condition admits exactly one.
func (i *interpreter) pinnedValue(t *Term) (uint64, bool) {
	e := i.ex
	var v uint64
	if e.modelValid {
		v = e.ctx.Eval(t, e.model, map[int]uint64{})
	} else {
		r, m := e.check(nil)
		if r != Sat {
			return 0, false
		}
		e.model, e.modelValid = m, true
		v = e.ctx.Eval(t, m, map[int]uint64{})
	}
	w := t.w
	var c *Term
	if w == 0 {
		c = e.ctx.Bool(v != 0)
	} else {
		c = e.ctx.BV(v, w)
	}
	if r, _ := e.check(e.ctx.Not(e.ctx.Cmp(OpEq, t, c))); r != Unsat {
		return 0, false
	}
	return v, true
}
