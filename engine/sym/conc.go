package sym

// Cooperative threads: every interpreted goroutine runs on its own host goroutine, but exactly one runs at a
// time (baton passing). Context switches happen when the running thread blocks or ends, at `go` statements
// (the child runs first) and — in interleaving mode — at visible synchronisation operations, where the next
// thread is a nondeterministic choice explored by the executor.

import (
	"fmt"
	"go/token"
	"go/types"

	"golang.org/x/tools/go/ssa"
)

type thread struct {
	id       int
	wake     chan struct{}
	done     bool
	ready    func() bool // nil = runnable
	what     string
	kill     bool
	curFrame *frame
	exited   chan struct{}
}

type threadKill struct{}

type mutexState struct {
	locked  bool
	owner   int
	readers int
	// sync.Once
	onceDone bool
	// WaitGroup
	count int64
	// Cond
	waiters []*condWaiter
	// atomic.Value
	av    value
	avSet bool
	// sync.Pool
	pool []value
	// sync.Map
	m *smap
}

type condWaiter struct{ signalled bool }

func (i *interpreter) sync(p value) *mutexState {
	ptr, ok := p.(*value)
	if !ok || ptr == nil {
		i.throw("invalid memory address or nil pointer dereference (sync object)")
	}
	st := i.mutexes[ptr]
	if st == nil {
		st = &mutexState{}
		i.mutexes[ptr] = st
	}
	return st
}

func (i *interpreter) newThread() *thread {
	th := &thread{id: len(i.threads), wake: make(chan struct{}, 1), exited: make(chan struct{})}
	i.threads = append(i.threads, th)
	return th
}

// spawn implements the `go` statement.
func (i *interpreter) spawn(fr *frame, pos token.Pos, fn value, args []value) {
	th := i.newThread()
	parent := i.cur
	go i.threadMain(th, pos, fn, args)
	if i.cfg.SpawnDeferred {
		return // the harness decides when the goroutine runs (operation-granular interleaving)
	}
	if i.cfg.Interleave && i.ex.Choose(2, "spawn-order") == 1 {
		return // parent continues; child stays runnable
	}
	// child runs first
	i.switchTo(parent, th)
}

func (i *interpreter) threadMain(th *thread, pos token.Pos, fn value, args []value) {
	defer close(th.exited)
	defer func() {
		r := recover()
		th.done = true
		if _, ok := r.(threadKill); ok {
			return
		}
		if r != nil && i.fatal == nil {
			switch r := r.(type) {
			case pathEnd:
				i.fatal = r
			case targetPanic:
				i.fatal = i.uncaught(r)
			default:
				i.fatal = r
			}
		}
		var next *thread
		if i.fatal == nil {
			func() {
				defer func() {
					if r2 := recover(); r2 != nil && i.fatal == nil {
						i.fatal = r2
					}
				}()
				next = i.pick(nil)
				if next == nil {
					i.fatal = pathEnd{oDeadlock, "all goroutines are blocked: " + i.blockedSummary()}
				}
			}()
		}
		if i.fatal != nil {
			next = i.threads[0] // the root thread re-raises
		}
		i.cur = next
		next.wake <- struct{}{}
	}()
	<-th.wake
	if th.kill {
		panic(threadKill{})
	}
	i.call(nil, pos, fn, args)
}

func (i *interpreter) uncaught(tp targetPanic) pathEnd {
	return pathEnd{oPanic, "uncaught panic in goroutine: " + i.panicMessage(tp)}
}

func (i *interpreter) blockedSummary() string {
	s := ""
	for _, th := range i.threads {
		if !th.done {
			s += fmt.Sprintf("[g%d: %s] ", th.id, th.what)
		}
	}
	return s
}

// pick selects the next thread to run among the ready ones (excluding `except` unless it is ready itself).
func (i *interpreter) pick(cur *thread) *thread {
	var cand []*thread
	for _, th := range i.threads {
		if th.done {
			continue
		}
		if th.ready == nil || th.ready() {
			cand = append(cand, th)
		}
	}
	if len(cand) == 0 {
		return nil
	}
	if i.cfg.SpawnDeferred {
		for _, th := range cand {
			if th.id == 0 {
				return th // deferred mode: control returns to the harness thread whenever it can run
			}
		}
	}
	if i.cfg.Interleave && len(cand) > 1 {
		return cand[i.ex.Choose(len(cand), "sched")]
	}
	return cand[len(cand)-1] // most recently created first
}

// switchTo parks `from` (which stays runnable unless from.ready is set) and runs `to`.
func (i *interpreter) switchTo(from, to *thread) {
	if from == to {
		return
	}
	i.cur = to
	to.wake <- struct{}{}
	<-from.wake
	if from.kill {
		panic(threadKill{})
	}
	if i.fatal != nil && from.id == 0 {
		f := i.fatal
		i.fatal = nil
		panic(f)
	}
}

// block suspends the current thread until ready() holds.
func (i *interpreter) block(ready func() bool, what string) {
	cur := i.cur
	for !ready() {
		cur.ready, cur.what = ready, what
		next := i.pick(cur)
		if next == nil {
			// nothing can run: let a pending time.After timer fire (timeouts make progress), else it is a deadlock
			if i.fireAfter() {
				continue
			}
			i.ex.end(oDeadlock, "blocks forever: %s (%s)", what, i.blockedSummary())
		}
		i.switchTo(cur, next)
	}
	cur.ready, cur.what = nil, ""
}

// yield is a visible operation: in interleaving mode another runnable thread may be scheduled here.
func (i *interpreter) yield(what string) {
	if !i.cfg.Interleave || len(i.threads) < 2 {
		return
	}
	if i.switches >= i.cfg.MaxSwitches {
		return
	}
	cur := i.cur
	next := i.pick(cur)
	if next != nil && next != cur {
		i.switches++
		i.switchTo(cur, next)
	}
}

// quiesce lets all runnable threads other than root run until they end or block (called at harness end).
func (i *interpreter) quiesce() {
	root := i.cur
	for {
		var next *thread
		for _, th := range i.threads {
			if th != root && !th.done && (th.ready == nil || th.ready()) {
				next = th
			}
		}
		if next == nil {
			return
		}
		i.switchTo(root, next)
	}
}

// killThreads terminates all parked host goroutines of the finished path.
func (i *interpreter) killThreads() {
	for _, th := range i.threads[1:] {
		if !th.done {
			th.kill = true
			th.wake <- struct{}{}
		}
		<-th.exited
	}
}

// ---- channels -------------------------------------------------------------------------------------------

func (i *interpreter) chanSend(fr *frame, ch *schan, v value) {
	if ch == nil {
		i.block(func() bool { return false }, "send on nil channel")
	}
	i.yield("chan send")
	if ch.closed {
		i.throw("send on closed channel")
	}
	if ch.cap > 0 {
		i.block(func() bool { return len(ch.buf) < ch.cap || ch.closed }, "chan send (buffer full)")
		if ch.closed {
			i.throw("send on closed channel")
		}
		ch.buf = append(ch.buf, v)
		return
	}
	// unbuffered: rendezvous modelled as a one-slot hand-off that must be taken before the sender continues
	i.block(func() bool { return len(ch.buf) == 0 || ch.closed }, "chan send (slot busy)")
	if ch.closed {
		i.throw("send on closed channel")
	}
	ch.buf = append(ch.buf, v)
	ch.pendingSend++
	mark := ch.taken
	i.block(func() bool { return ch.taken > mark || ch.closed }, "chan send (waiting for receiver)")
	if ch.taken == mark && ch.closed {
		i.throw("send on closed channel")
	}
}

func (i *interpreter) chanRecv(fr *frame, ch *schan, elemT types.Type) (value, bool) {
	if ch == nil {
		i.block(func() bool { return false }, "receive on nil channel")
	}
	i.yield("chan recv")
	if !(len(ch.buf) > 0 || ch.closed) {
		ch.recvWaiting++
		i.block(func() bool { return len(ch.buf) > 0 || ch.closed }, "chan receive")
		ch.recvWaiting--
	}
	if len(ch.buf) > 0 {
		return i.chanTake(ch), true
	}
	return i.zero(elemT), false
}

func (i *interpreter) chanTake(ch *schan) value {
	v := ch.buf[0]
	ch.buf = append([]value(nil), ch.buf[1:]...)
	if ch.cap == 0 {
		ch.taken++
		ch.pendingSend--
	}
	return v
}

func (i *interpreter) chanClose(ch *schan) {
	if ch == nil {
		i.throw("close of nil channel")
	}
	if ch.closed {
		i.throw("close of closed channel")
	}
	ch.closed = true
}

// canSendNow: a send can complete without blocking (buffer space, or a receiver is parked on this channel).
func (i *interpreter) canSendNow(ch *schan) bool {
	if ch == nil {
		return false
	}
	if ch.closed {
		return true // will panic
	}
	if ch.cap > 0 {
		return len(ch.buf) < ch.cap
	}
	return ch.recvWaiting > 0 && len(ch.buf) == 0
}

func (i *interpreter) selectStmt(fr *frame, instr *ssa.Select) value {
	i.yield("select")
	type cs struct {
		ch   *schan
		send value
		recv bool
	}
	var cases []cs
	for _, st := range instr.States {
		c := cs{recv: st.Dir == types.RecvOnly}
		c.ch, _ = fr.get(st.Chan).(*schan)
		if !c.recv {
			c.send = fr.get(st.Send)
		}
		cases = append(cases, c)
	}
	readyIdx := func() []int {
		var r []int
		for k, c := range cases {
			if c.ch == nil {
				continue
			}
			if c.recv {
				if len(c.ch.buf) > 0 || c.ch.closed {
					r = append(r, k)
				}
			} else if i.canSendNow(c.ch) {
				r = append(r, k)
			}
		}
		return r
	}
	rd := readyIdx()
	chosen := -1
	if len(rd) == 0 {
		if instr.Blocking {
			for _, c := range cases {
				if c.ch != nil && c.recv {
					c.ch.recvWaiting++
				}
			}
			i.block(func() bool { return len(readyIdx()) > 0 }, "select")
			for _, c := range cases {
				if c.ch != nil && c.recv {
					c.ch.recvWaiting--
				}
			}
			rd = readyIdx()
		}
	}
	if len(rd) > 0 {
		chosen = rd[i.ex.Choose(len(rd), "select")]
	}
	r := tuple{i.mkInt(types.Int, int64(chosen)), i.mkBool(false)}
	recvOk := false
	var recvVal value
	if chosen >= 0 {
		c := cases[chosen]
		if c.recv {
			if len(c.ch.buf) > 0 {
				recvVal, recvOk = i.chanTake(c.ch), true
			}
		} else {
			if c.ch.closed {
				i.throw("send on closed channel")
			}
			if c.ch.cap > 0 {
				c.ch.buf = append(c.ch.buf, c.send)
			} else {
				c.ch.buf = append(c.ch.buf, c.send)
				c.ch.pendingSend++
				mark := c.ch.taken
				ch := c.ch
				i.block(func() bool { return ch.taken > mark || ch.closed }, "select send (waiting for receiver)")
			}
		}
	}
	r[1] = i.mkBool(recvOk)
	for k, st := range instr.States {
		if st.Dir == types.RecvOnly {
			var v value
			if k == chosen && recvOk {
				v = recvVal
			} else {
				v = i.zero(st.Chan.Type().Underlying().(*types.Chan).Elem())
			}
			r = append(r, v)
		}
	}
	return r
}

// fireAfter delivers the tick of one pending time.After channel; false if none is pending.
func (i *interpreter) fireAfter() bool {
	var pending []*schan
	for _, ch := range i.afterChans {
		if !ch.fired {
			pending = append(pending, ch)
		}
	}
	if len(pending) == 0 {
		return false
	}
	ch := pending[i.ex.Choose(len(pending), "timeout")]
	ch.fired = true
	i.clock += 1000000000
	ch.buf = append(ch.buf, structure{i.mkInt(types.Uint64, 0), i.mkInt(types.Int64, 63000000000+i.clock), (*value)(nil)})
	return true
}
