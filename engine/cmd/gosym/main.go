// gosym: symbolic executor for harness functions injected into the real packages of /repo via overlays.
package main

import (
	"crypto/sha1"
	"encoding/json"
	"flag"
	"fmt"
	"os"
	"path/filepath"
	"regexp"
	"sort"
	"strings"
	"time"

	"golang.org/x/tools/go/packages"
	"golang.org/x/tools/go/ssa"
	"golang.org/x/tools/go/ssa/ssautil"

	"verif/engine/sym"
)

type output struct {
	Module    string          `json:"module"`
	Package   string          `json:"package"`
	Tier      string          `json:"tier"`
	LoadS     float64         `json:"load_s"`
	Harnesses []*harnessOut   `json:"harnesses"`
	Stats     sym.SolverStats `json:"solver_stats"`
	Bounds    map[string]int  `json:"bounds"`
	Errors    []string        `json:"errors,omitempty"`
}

type harnessOut struct {
	Name         string         `json:"name"`
	Paths        int            `json:"paths"`
	Outcomes     map[string]int `json:"outcomes"`
	Findings     []sym.Finding  `json:"findings"`
	ReplayFiles  []string       `json:"replay_files"`
	Reached      map[string]int `json:"reached"`
	Funcs        []string       `json:"funcs"`
	Caveats      []string       `json:"caveats"`
	Asserts      int            `json:"asserts"`
	SymAsserts   int            `json:"sym_asserts"`
	NontrivPaths int            `json:"nontrivial_paths"`
	Inconclusive []string       `json:"inconclusive"`
	Samples      []string       `json:"samples"`
	WallS        float64        `json:"wall_s"`
	MaxSteps     int            `json:"max_steps_seen"`
	Vacuous      bool           `json:"vacuous"`
	Reports      []string       `json:"reports,omitempty"`
}

func main() {
	var (
		repo        = flag.String("repo", "/repo", "repository root")
		mod         = flag.String("mod", "root", "module: root | estargz | cmd")
		pkgPat      = flag.String("pkg", "", "package pattern relative to the module, e.g. ./fs/remote")
		hdir        = flag.String("hdir", "/verif/harness", "harness tree")
		hre         = flag.String("harness", "^VerifH_", "regexp selecting harness functions")
		tier        = flag.String("tier", "quick", "quick | thorough")
		out         = flag.String("out", "", "result JSON file")
		replayDir   = flag.String("replays", "/verif/replays", "directory for replay files")
		overlayOut  = flag.String("overlay-out", "", "write the go-build overlay JSON here")
		workers     = flag.Int("workers", 16, "parallel workers")
		maxPaths    = flag.Int("max-paths", 200000, "path budget per harness")
		maxSteps    = flag.Int("max-steps", 2000000, "SSA instruction budget per path")
		maxDepth    = flag.Int("max-depth", 400, "symbolic decisions per path")
		maxFrames   = flag.Int("max-frames", 200, "call depth bound")
		concLimit   = flag.Int("conc-limit", 64, "max cases per concretisation")
		timeoutS    = flag.Int("solver-timeout", 20, "per-query solver timeout (s)")
		budgetS     = flag.Int("time-budget", 600, "time budget per harness (s)")
		pathSolverS = flag.Int("path-solver-budget", 120, "solver seconds one path may consume before it is abandoned as unknown")
		diff        = flag.Bool("diff-solvers", false, "cross-check every query on z3-new and cvc5")
		trace       = flag.Bool("trace", false, "trace calls")
		known       = flag.String("known-open", "", "comma-separated open known-finding ids")
		prop        = flag.String("prop", "X", "property id (for replay paths)")
	)
	flag.Parse()

	moddir := *repo
	if *mod != "root" {
		moddir = filepath.Join(*repo, *mod)
	}
	overlay, err := buildOverlay(*hdir, *mod, moddir)
	if err != nil {
		fatal(err)
	}
	if *overlayOut != "" {
		writeOverlayJSON(*overlayOut, *hdir, *mod, moddir)
	}
	res := &output{Module: *mod, Package: *pkgPat, Tier: *tier, Bounds: map[string]int{
		"max_paths": *maxPaths, "max_steps": *maxSteps, "max_depth": *maxDepth, "max_frames": *maxFrames,
		"conc_limit": *concLimit, "solver_timeout_s": *timeoutS, "time_budget_s": *budgetS, "workers": *workers}}

	t0 := time.Now()
	cfg := &packages.Config{
		Mode:       packages.LoadAllSyntax,
		Dir:        moddir,
		Overlay:    overlay,
		BuildFlags: []string{"-tags=verif"},
		Env:        append(os.Environ(), "GOFLAGS=-mod=mod", "GOPROXY=off", "GOWORK=off"),
	}
	pkgs, err := packages.Load(cfg, *pkgPat)
	if err != nil {
		fatal(err)
	}
	nerr := 0
	packages.Visit(pkgs, nil, func(p *packages.Package) {
		for _, e := range p.Errors {
			if nerr < 10 {
				res.Errors = append(res.Errors, e.Error())
			}
			nerr++
		}
	})
	if nerr > 0 {
		res.Errors = append(res.Errors, fmt.Sprintf("%d package load errors", nerr))
		writeOut(*out, res)
		fmt.Fprintln(os.Stderr, "load errors:", strings.Join(res.Errors, "\n"))
		os.Exit(2)
	}
	prog, spkgs := ssautil.AllPackages(pkgs, ssa.InstantiateGenerics|ssa.SanityCheckFunctions&0)
	for _, sp := range spkgs {
		if sp != nil {
			sp.Build()
		}
	}
	res.LoadS = time.Since(t0).Seconds()

	re := regexp.MustCompile(*hre)
	var fns []*ssa.Function
	for _, sp := range spkgs {
		if sp == nil {
			continue
		}
		for name, m := range sp.Members {
			if f, ok := m.(*ssa.Function); ok && strings.HasPrefix(name, "VerifH_") && re.MatchString(name) {
				fns = append(fns, f)
			}
		}
	}
	sort.Slice(fns, func(a, b int) bool { return fns[a].Name() < fns[b].Name() })
	if len(fns) == 0 {
		res.Errors = append(res.Errors, "no harness function matched "+*hre)
		writeOut(*out, res)
		os.Exit(2)
	}
	knownOpen := map[string]bool{}
	for _, k := range strings.Split(*known, ",") {
		if k != "" {
			knownOpen[k] = true
		}
	}
	tierN := 0
	if *tier == "thorough" {
		tierN = 1
	}
	exit := 0
	for _, fn := range fns {
		hc := &sym.HarnessConfig{
			Config: sym.Config{MaxSteps: *maxSteps, MaxDepth: *maxDepth, MaxFrames: *maxFrames, ConcLimit: *concLimit,
				Trace: *trace, KnownOpen: knownOpen, Tier: tierN},
			Workers: *workers, MaxPaths: *maxPaths, SolverTimeout: time.Duration(*timeoutS) * time.Second,
			TimeBudget: time.Duration(*budgetS) * time.Second, DiffSolvers: *diff, PathSolverBudget: time.Duration(*pathSolverS) * time.Second,
		}
		hr := sym.RunHarness(prog, fn, hc)
		ho := &harnessOut{Name: hr.Harness, Paths: hr.Paths, Outcomes: hr.Outcomes, Findings: hr.Findings, Reached: hr.Reached,
			Asserts: hr.Asserts, SymAsserts: hr.SymAsserts, NontrivPaths: hr.NontrivPaths, Inconclusive: hr.Inconclusive,
			Samples: hr.Samples, WallS: hr.Wall.Seconds(), MaxSteps: hr.MaxStepsSeen, Reports: hr.Reports}
		for f := range hr.Funcs {
			ho.Funcs = append(ho.Funcs, f)
		}
		sort.Strings(ho.Funcs)
		for c := range hr.Caveats {
			ho.Caveats = append(ho.Caveats, c)
		}
		sort.Strings(ho.Caveats)
		// vacuity: at least one path must run to the end and hit a Reach marker
		if len(hr.Reached) == 0 {
			ho.Vacuous = true
		}
		for k := range hr.Findings {
			f := &hr.Findings[k]
			b, _ := json.MarshalIndent(map[string]interface{}{
				"property": *prop, "module": *mod, "package": *pkgPat, "harness": f.Harness, "kind": f.Kind,
				"assert_id": f.AssertID, "msg": f.Msg, "known": f.Known, "engine_only": f.EngineOnly, "trace": f.Trace, "nondets": f.Nondets, "stack": f.Stack,
				"tier": tierN,
			}, "", " ")
			h := sha1.Sum([]byte(f.Harness + f.Trace + f.Kind + f.AssertID))
			dir := filepath.Join(*replayDir, *prop)
			os.MkdirAll(dir, 0o755)
			path := filepath.Join(dir, fmt.Sprintf("%s-%x.json", f.Harness, h[:6]))
			os.WriteFile(path, b, 0o644)
			ho.ReplayFiles = append(ho.ReplayFiles, path)
		}
		res.Harnesses = append(res.Harnesses, ho)
		fmt.Fprintf(os.Stderr, "%s: paths=%d outcomes=%v findings=%d inconclusive=%d reached=%v wall=%.1fs\n",
			hr.Harness, hr.Paths, hr.Outcomes, len(hr.Findings), len(hr.Inconclusive), hr.Reached, hr.Wall.Seconds())
		for k, m := range hr.Inconclusive {
			if k < 6 {
				if len(m) > 600 {
					m = m[:600]
				}
				fmt.Fprintln(os.Stderr, "  inconclusive:", m)
			}
			exit = 2
		}
		for k, f := range hr.Findings {
			if k >= 4 {
				fmt.Fprintf(os.Stderr, "  ... %d more findings\n", len(hr.Findings)-k)
				break
			}
			if len(f.Nondets) > 24 {
				f.Nondets = f.Nondets[:24]
			}
			fmt.Fprintf(os.Stderr, "  finding: %s %s %s known=%q nondets=%v\n", f.Kind, f.AssertID, firstLine(f.Msg), f.Known, f.Nondets)
		}
	}
	res.Stats = sym.GlobalStats
	writeOut(*out, res)
	os.Exit(exit)
}

func firstLine(s string) string {
	if i := strings.IndexByte(s, '\n'); i >= 0 {
		return s[:i]
	}
	return s
}

func fatal(err error) {
	fmt.Fprintln(os.Stderr, "gosym:", err)
	os.Exit(2)
}

func writeOut(path string, res *output) {
	if path == "" {
		return
	}
	b, _ := json.MarshalIndent(res, "", " ")
	os.WriteFile(path, b, 0o644)
}

// overlayPairs maps harness files into the module tree: <hdir>/<mod>/<pkg>/zz_*.go -> <moddir>/<pkg>/zz_*.go,
// and <hdir>/rt/*.go -> <moddir>/zzverifrt/*.go.
func overlayPairs(hdir, mod, moddir string) (map[string]string, error) {
	pairs := map[string]string{}
	root := filepath.Join(hdir, mod)
	err := filepath.Walk(root, func(p string, info os.FileInfo, err error) error {
		if err != nil {
			return err
		}
		if info.IsDir() || !strings.HasSuffix(p, ".go") {
			return nil
		}
		rel, _ := filepath.Rel(root, p)
		pairs[filepath.Join(moddir, rel)] = p
		return nil
	})
	if err != nil && !os.IsNotExist(err) {
		return nil, err
	}
	// <hdir>/shared/<module>/<pkg>/zz_*.go: export shims overlaid into a module of /repo whichever module is loaded
	// (the modules depend on each other through replace directives, so a harness of one module can use them)
	repo := moddir
	if mod != "root" {
		repo = filepath.Dir(moddir)
	}
	for _, sm := range []string{"root", "estargz", "cmd"} {
		sroot := filepath.Join(hdir, "shared", sm)
		target := repo
		if sm != "root" {
			target = filepath.Join(repo, sm)
		}
		filepath.Walk(sroot, func(p string, info os.FileInfo, err error) error {
			if err != nil || info.IsDir() || !strings.HasSuffix(p, ".go") {
				return nil
			}
			rel, _ := filepath.Rel(sroot, p)
			pairs[filepath.Join(target, rel)] = p
			return nil
		})
	}
	rt, _ := filepath.Glob(filepath.Join(hdir, "rt", "*.go"))
	for _, p := range rt {
		pairs[filepath.Join(moddir, "zzverifrt", filepath.Base(p))] = p
	}
	return pairs, nil
}

func buildOverlay(hdir, mod, moddir string) (map[string][]byte, error) {
	pairs, err := overlayPairs(hdir, mod, moddir)
	if err != nil {
		return nil, err
	}
	ov := map[string][]byte{}
	for virt, real := range pairs {
		b, err := os.ReadFile(real)
		if err != nil {
			return nil, err
		}
		ov[virt] = b
	}
	return ov, nil
}

func writeOverlayJSON(path, hdir, mod, moddir string) {
	pairs, _ := overlayPairs(hdir, mod, moddir)
	b, _ := json.MarshalIndent(map[string]interface{}{"Replace": pairs}, "", " ")
	os.WriteFile(path, b, 0o644)
}
