# sourced by every script: Go 1.25.0 toolchain from the module cache, offline settings
export PATH=/root/go/pkg/mod/golang.org/toolchain@v0.0.1-go1.25.0.linux-amd64/bin:$PATH
export GOTOOLCHAIN=local GOFLAGS=-mod=mod GOPROXY=off GOSUMDB=off GONOSUMDB=* GONOSUMCHECK=1 GOWORK=off
