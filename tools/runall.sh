#!/bin/bash
# runall.sh <tier> [ids...]: run the registered checks one after another, summarise.
TIER=${1:-quick}; shift
cd /verif
IDS="$@"; [ -z "$IDS" ] && IDS=$(python3 -c "import json;print(' '.join(json.load(open('checks.json')).keys()))")
for id in $IDS; do
  S=$(date +%s); OUT=$(./check $id $TIER 2>/dev/null | grep -E "^(OK|VIOLATION|INCONCLUSIVE|KNOWN)" | head -3 | cut -c1-160); RC=$?
  echo "$id $(( $(date +%s)-S ))s :: $OUT"
done
