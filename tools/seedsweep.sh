#!/bin/bash
# seedsweep.sh: run every seeded change against the check(s) recorded to catch it (meta.json "detect_with", default its own
# property); one line per seed. Mutates /repo temporarily: run nothing else meanwhile.
cd /verif
for d in seeded/C*; do
  n=$(basename $d)
  props=$(python3 -c "import json;m=json.load(open('$d/meta.json'));print(' '.join(m.get('detect_with',[m['property']])))")
  for p in $props; do
    out=$(tools/seedtest.sh /verif/$d $p 2>&1 | tail -1)
    echo "$n $p :: $out"
  done
done
