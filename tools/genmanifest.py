#!/usr/bin/env python3
"""Regenerate MANIFEST.json from checks.json (claimed properties) and na.json (not-applicable reasons)."""
import json
V='/verif'
checks=json.load(open(f'{V}/checks.json'))
props=[json.loads(l) for l in open(f'{V}/properties.jsonl')]
na=json.load(open(f'{V}/na.json'))
m=json.load(open(f'{V}/MANIFEST.json'))
def chk(pid,spec):
    return {"property_id":pid,"quick_cmd":f"./check {pid} quick","thorough_cmd":f"./check {pid} thorough","evidence_file":f"/verif/evidence/{pid}.json",
     "replay_cmd_template":f"./check {pid} --replay {{path}}","engine":"gosym",
     "level_claimed":{"category":"other","text":"Bounded symbolic verification of the real code: "+spec['claim']+" Every branch, panic condition and assertion is decided by an SMT solver for all values of the symbolic inputs within the stated bounds; counterexamples are replayed natively before being reported. Not an unbounded proof.","design_ref":"DESIGN.md section 5/"+pid},
     "level_note":"Trusted: /verif/engine (own go/ssa symbolic executor), go/ssa v0.29.0, z3 4.8.12 / 5.1.0, cvc5 1.0. Assumptions/models: "+"; ".join(spec.get('assumptions',[])),
     "technique":"bounded symbolic execution of the real Go code (go/ssa -> SMT-LIB2; z3/cvc5 decide every branch and assertion), native replay of counterexamples"}
m['checks']=[chk(p['id'],checks[p['id']]) for p in props if p['id'] in checks]
m['not_applicable']=[{"property_id":p['id'],"reason":na.get(p['id'],"check not built yet (engine capacity); see DESIGN.md")} for p in props if p['id'] not in checks]
m['engines'][0]['serves_properties']=[p['id'] for p in props if p['id'] in checks]
m['notes']="Harnesses live in /verif/harness (overlaid into /repo's packages, /repo is never written by checks); known_findings.json lists genuine defects (fixed ones with their fix: commits). DESIGN.md documents engine, models, bounds and which seeded changes each check catches."
json.dump(m,open(f'{V}/MANIFEST.json','w'),indent=1)
print('claimed',[c['property_id'] for c in m['checks']])
