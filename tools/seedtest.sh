#!/bin/bash
# seedtest.sh <seed-dir-or-patch> <property> [tier]: apply a seeded change to /repo, run the check, undo it.
P=$1; [ -d "$P" ] && P=$P/patch.diff
PROP=$2; TIER=${3:-quick}
cd /repo && git apply "$P" || { echo "patch does not apply"; exit 3; }
cd /verif && timeout 3000 ./check $PROP $TIER 2>/dev/null | cut -c1-220 | grep -E "^(VIOLATION|OK|INCONCLUSIVE|KNOWN)" | head -5
RC=${PIPESTATUS[0]}
cd /repo && git checkout -- . && git status --short | grep -v '^??' | head -3
echo "seedtest $1 $PROP rc=$RC"
