#!/usr/bin/env python3
"""Confirm a seeded change in its scratch worktree: demo fails with the patch, passes without; existing tests of the
affected packages pass with the patch. Writes /verif/seeded/<name>/{patch.diff,demo,meta.json}."""
import json, os, shutil, subprocess, sys, time
name, prop, wt, src, demopkg, moddir = sys.argv[1:7]
testpkgs = sys.argv[7:]
env = dict(os.environ)
env['PATH'] = '/root/go/pkg/mod/golang.org/toolchain@v0.0.1-go1.25.0.linux-amd64/bin:' + env['PATH']
env.update(GOTOOLCHAIN='local', GOFLAGS='-mod=mod', GOPROXY='off')
def run(cmd, cwd, timeout=1500):
    t0 = time.time()
    try:
        p = subprocess.run(cmd, cwd=cwd, env=env, shell=True, capture_output=True, text=True, timeout=timeout)
        return p.returncode, (p.stdout + p.stderr)[-3000:], time.time() - t0
    except subprocess.TimeoutExpired as e:
        return 124, 'TIMEOUT', time.time() - t0
mod = os.path.join(wt, moddir)
demo_dst = os.path.join(mod, demopkg, 'zz_demo_test.go')
subprocess.run('git checkout -- . && git clean -fdq -e _out', cwd=wt, shell=True)
res = {'property': prop, 'name': name, 'steps': []}
def step(label, cmd, cwd):
    rc, out, dt = run(cmd, cwd)
    res['steps'].append({'step': label, 'cmd': cmd, 'rc': rc, 'secs': round(dt, 1), 'tail': out[-600:]})
    return rc
shutil.copy(os.path.join(src, 'zz_demo_test.go'), demo_dst)
demo_cmd = f"go test -vet=off -count=1 -timeout 300s -run 'Demo|demo|ZZ' ./{demopkg}/"
rc_clean = step('demo on clean tree (expect pass)', demo_cmd, mod)
rc_apply = step('apply patch', f"git apply {src}/patch.diff", wt)
rc_mut = step('demo with patch (expect fail)', demo_cmd, mod)
os.remove(demo_dst)
rc_tests = 0
for tp in testpkgs:
    m, p = tp.split(':')
    rc_tests |= step(f'existing tests {tp} with patch (expect pass)', f"go test -vet=off -count=1 -timeout 1400s {p}", os.path.join(wt, m))
subprocess.run('git checkout -- . && git clean -fdq -e _out', cwd=wt, shell=True)
ok = rc_clean == 0 and rc_apply == 0 and rc_mut != 0 and rc_tests == 0
res['confirmed'] = ok
dst = f'/verif/seeded/{name}'
os.makedirs(dst, exist_ok=True)
shutil.copy(os.path.join(src, 'patch.diff'), dst)
shutil.copy(os.path.join(src, 'zz_demo_test.go'), os.path.join(dst, 'zz_demo_test.go.txt'))
shutil.copy(os.path.join(src, 'README.md'), os.path.join(dst, 'AGENT_README.md'))
res['demo_location'] = f'{moddir}/{demopkg}/zz_demo_test.go (stored here as zz_demo_test.go.txt so that go tooling ignores it)'
json.dump(res, open(os.path.join(dst, 'confirm.json'), 'w'), indent=1)
print(name, 'CONFIRMED' if ok else 'NOT-CONFIRMED', [(s['step'][:30], s['rc']) for s in res['steps']])
