#!/bin/bash
# probe.sh <tier> <budget_s> <id>...: run every group of the given checks with gosym directly, print one line per harness
TIER=$1; BUD=$2; shift 2
cd /verif; . ./env.sh
for id in "$@"; do
python3 - "$id" <<'PY' > /tmp/probe_groups.txt
import json,sys
c=json.load(open('/verif/checks.json'))
for g in c[sys.argv[1]]['groups']:
    print(g['mod'],g['pkg'],g['harness'])
PY
while read mod pkg h; do
  S=$(date +%s)
  timeout $((BUD+300)) bin/gosym -mod $mod -pkg $pkg -harness "$h" -tier $TIER -time-budget $BUD -max-paths 8000000 -known-open F-C05-5,F-C20-2 -out /tmp/probe.json -prop PROBE -replays /tmp/probe_replays 2>&1 | grep -E "^VerifH|inconclusive:|finding:" | cut -c1-260 | sed "s/^/$id /"
done < /tmp/probe_groups.txt
done
