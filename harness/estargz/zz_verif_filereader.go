//go:build verif

package estargz

import (
	"io"

	digest "github.com/opencontainers/go-digest"

	vr "github.com/containerd/stargz-snapshotter/estargz/zzverifrt"
)

// verifMemberBlob: the compressed blob as the file reader sees it. The byte at the start offset of compressed
// member k is k (so the model decompressor can tell which member it was handed); every other byte is 0xff.
type verifMemberBlob struct {
	starts []int64
}

func (b *verifMemberBlob) ReadAt(p []byte, off int64) (int, error) {
	for i := range p {
		p[i] = 0xff
		for k, s := range b.starts {
			if s == off+int64(i) {
				p[i] = byte(k)
			}
		}
	}
	return len(p), nil
}

// verifMemberDecompressor: Reader(r) yields the uncompressed content of the member r starts at.
// Contract (decompression itself is outside the claim): a member decompresses to the concatenation of the chunks
// recorded at its compressed offset, in inner-offset order.
type verifMemberDecompressor struct {
	members [][]byte
}

type verifBytesReader struct{ b []byte }

func (r *verifBytesReader) Read(p []byte) (int, error) {
	if len(r.b) == 0 {
		return 0, io.EOF
	}
	n := copy(p, r.b)
	r.b = r.b[n:]
	return n, nil
}
func (r *verifBytesReader) Close() error { return nil }

func (d *verifMemberDecompressor) Reader(r io.Reader) (io.ReadCloser, error) {
	var first [1]byte
	if _, err := io.ReadFull(r, first[:]); err != nil {
		return nil, err
	}
	if int(first[0]) >= len(d.members) {
		return nil, errVerif
	}
	return &verifBytesReader{b: d.members[first[0]]}, nil
}
func (d *verifMemberDecompressor) FooterSize() int64 { return 0 }
func (d *verifMemberDecompressor) ParseFooter(p []byte) (int64, int64, int64, error) {
	return 0, 0, 0, errVerif
}
func (d *verifMemberDecompressor) ParseTOC(r io.Reader) (*JTOC, digest.Digest, error) {
	return nil, "", errVerif
}

// C02/H3: the estargz file reader picks the right compressed member, skips the right number of bytes inside it and
// returns exactly the requested bytes of the chunk, for every chunk layout (one member per chunk, or several
// chunks sharing a member as with min-chunk-size), with and without the pre-read callback (which must receive
// exactly the bytes of the chunk it names).
func VerifH_C02_fileReaderChunkSelect() {
	maxChunks, maxSize := 3, 2
	if vr.Tier() > 0 {
		maxChunks, maxSize = 4, 3
	}
	n := 1 + vr.Len("chunks", maxChunks-1)
	ents := []*TOCEntry{}
	var F []byte
	var starts []int64
	var members [][]byte
	off := int64(0)
	for i := 0; i < n; i++ {
		sz := 1 + vr.Choice("chunksize", maxSize)
		data := vr.Bytes("F", sz)
		e := &TOCEntry{Name: "f", Type: "chunk", ChunkOffset: off, ChunkSize: int64(sz), ChunkDigest: "sha256:c"}
		if i == 0 {
			e.Type = "reg"
			e.Digest = "sha256:f"
		}
		if i > 0 && vr.Bool("sharesMember") {
			// same compressed member as the previous chunk: inner offset continues
			prev := ents[len(ents)-1]
			e.Offset = prev.Offset
			e.InnerOffset = prev.InnerOffset + prev.ChunkSize
			members[len(members)-1] = append(members[len(members)-1], data...)
		} else {
			e.Offset = int64(100 * (len(members) + 1))
			starts = append(starts, e.Offset)
			members = append(members, append([]byte(nil), data...))
		}
		ents = append(ents, e)
		F = append(F, data...)
		off += int64(sz)
	}
	ents[0].Size = off
	r := &Reader{toc: &JTOC{Version: 1, Entries: ents}, sr: io.NewSectionReader(&verifMemberBlob{starts: starts}, 0, 1000),
		decompressor: &verifMemberDecompressor{members: members}}
	vr.Assert(r.initFields() == nil, "initFields-accepts-valid-toc")
	k := vr.Choice("chunk", n)
	lo := vr.Choice("from", int(ents[k].ChunkSize))
	ln := 1 + vr.Choice("len", int(ents[k].ChunkSize)-lo)
	p := make([]byte, ln)
	var sr *io.SectionReader
	var err error
	preReads := 0
	if vr.Bool("withPreReader") {
		sr, err = r.OpenFileWithPreReader("f", func(e *TOCEntry, cr io.Reader) error {
			preReads++
			b, rerr := io.ReadAll(cr)
			vr.Assert(rerr == nil && int64(len(b)) == e.ChunkSize, "preread-gets-the-whole-chunk")
			for i := range b {
				vr.Assert(b[i] == F[int(e.ChunkOffset)+i], "preread-gets-the-bytes-of-the-chunk-it-names")
			}
			return nil
		})
	} else {
		sr, err = r.OpenFile("f")
	}
	vr.Assert(err == nil, "openfile")
	got, rerr := sr.ReadAt(p, ents[k].ChunkOffset+int64(lo))
	vr.Assert(rerr == nil && got == ln, "read-within-a-chunk-succeeds")
	for i := 0; i < got; i++ {
		vr.Assert(p[i] == F[int(ents[k].ChunkOffset)+lo+i], "file-bytes-exact")
	}
	vr.Reach("end")
}

// C04/H3c: the estargz file reader on a file whose chunk entries are arbitrary (first chunk not at 0, unsorted,
// overlapping, negative): reads return errors, never panic.
func VerifH_C04_fileReaderAdversarial() {
	n := 1 + vr.Len("chunks", 1)
	var ents []*TOCEntry
	for i := 0; i < n; i++ {
		e := &TOCEntry{Name: "f", Type: "chunk", ChunkOffset: vr.I64("chunkoffset"), ChunkSize: vr.I64("chunksize"),
			InnerOffset: []int64{0, 3}[vr.Choice("inneroffset", 2)],
			Offset:      []int64{100, 990, -1}[vr.Choice("offset", 3)]}
		// small ranges (byte counts become concrete buffer lengths in the engine), negative values included
		vr.Assume(-2 <= e.ChunkOffset && e.ChunkOffset <= 8)
		vr.Assume(-2 <= e.ChunkSize && e.ChunkSize <= 8)
		if i == 0 {
			e.Type = "reg"
			e.Size = vr.I64("size")
			vr.Assume(-2 <= e.Size && e.Size <= 8)
		}
		ents = append(ents, e)
	}
	r := &Reader{toc: &JTOC{Version: 1, Entries: ents}, sr: io.NewSectionReader(&verifMemberBlob{starts: []int64{100}}, 0, 1000),
		decompressor: &verifMemberDecompressor{members: [][]byte{{1, 2, 3, 4, 5, 6, 7, 8}}}}
	if err := r.initFields(); err != nil {
		vr.Reach("rejected")
		return
	}
	sr, err := r.OpenFile("f")
	if err != nil {
		vr.Reach("not-openable")
		return
	}
	p := make([]byte, 1+vr.Len("len", 2))
	off := vr.I64("readoffset")
	vr.Assume(0 <= off && off <= 10)
	_, _ = sr.ReadAt(p, off)
	vr.Reach("end")
}
