//go:build verif

package estargz

import (
	"bytes"
	"encoding/binary"
	"fmt"
	"path"
	"sort"
	"strconv"
	"strings"

	vr "github.com/containerd/stargz-snapshotter/estargz/zzverifrt"
)

// Translator validation: concrete inputs (and symbolic inputs pinned to concrete values, which force the engine's
// symbolic code paths: ite-chains, summaries, solver-decided branches) through the same Go code under the engine
// and natively; every reported value must be identical.
func VerifH_SELFTEST_estargz() {
	// real footers through the real parsers
	for _, off := range []int64{0, 1, 0x1234, 1<<40 + 7, 1<<62 + 3} {
		p := gzipFooterBytes(off)
		_, toc, _, err := (&GzipDecompressor{}).ParseFooter(p)
		vr.Report(fmt.Sprintf("gzfooter-%d", off), fmt.Sprint(toc, err == nil, len(p)))
		_, _, _, lerr := (&LegacyGzipDecompressor{}).ParseFooter(p[:legacyFooterSize])
		vr.Report(fmt.Sprintf("legacy-on-prefix-%d", off), lerr == nil)
	}
	// strconv summary vs the real implementation (Symbolize forces the summary path in the engine)
	for _, s := range []string{"0", "7f", "00000000deadBEEF", "7fffffffffffffff", "8000000000000000", "ffffffffffffffff", "-1", "+10", "-8000000000000000", "xyz", "", "12g4", "-", "0x10"} {
		v, err := strconv.ParseInt(vr.Symbolize(s), 16, 64)
		vr.Report("parseint16-"+s, fmt.Sprint(v, err == nil))
		u, uerr := strconv.ParseUint(vr.Symbolize(s), 16, 64)
		vr.Report("parseuint16-"+s, fmt.Sprint(u, uerr == nil))
	}
	for _, s := range []string{"0", "42", "-42", "+7", "999999999999999999", "12a", "", "00012"} {
		v, err := strconv.ParseInt(vr.Symbolize(s), 10, 64)
		vr.Report("parseint10-"+s, fmt.Sprint(v, err == nil))
	}
	// %016x rendering of a symbolic value
	for _, x := range []int64{0, 255, 0x0123456789abcdef, 1<<63 - 1} {
		vr.Report(fmt.Sprintf("hex16-%d", x), fmt.Sprintf("%016xSTARGZ", vr.SymbolizeI64(x)))
	}
	// byte/string primitives on symbolic data
	h := vr.Symbolize("a/b/c.txt")
	vr.Report("indexbyte", strings.IndexByte(h, '/'))
	vr.Report("lastindex", strings.LastIndex(h, "/"))
	vr.Report("hasprefix", strings.HasPrefix(h, "a/"))
	vr.Report("contains", strings.Contains(h, "c.t"))
	vr.Report("compare", strings.Compare(h, "a/b/d"))
	vr.Report("equalfold", h == "a/b/c.txt")
	vr.Report("split", strings.Join(strings.Split(h, "/"), "|"))
	vr.Report("trim", strings.TrimSuffix(strings.TrimPrefix(h, "a/"), ".txt"))
	vr.Report("bytes-equal", bytes.Equal([]byte(h), []byte("a/b/c.txt")))
	vr.Report("less", h < "a/c")
	vr.Report("concat", h+"!")
	// concrete library code
	vr.Report("clean", cleanEntryName("./a/../b//c/"))
	vr.Report("pathsplit", fmt.Sprint(path.Split("a/b/c")))
	var buf [binary.MaxVarintLen64]byte
	for _, x := range []int64{0, -1, 63, 64, -65, 1 << 40, -(1 << 62)} {
		n := binary.PutVarint(buf[:], vr.SymbolizeI64(x))
		y, m := binary.Varint(buf[:n])
		vr.Report(fmt.Sprintf("varint-%d", x), fmt.Sprint(n, y, m))
	}
	xs := []int{5, 2, 9, 1}
	sort.Slice(xs, func(i, j int) bool { return xs[i] < xs[j] })
	vr.Report("sortslice", fmt.Sprint(xs))
	vr.Report("search", sort.Search(100, func(i int) bool { return int64(i) >= vr.SymbolizeI64(37) }))
	// arithmetic with wrap-around, shifts, division on pinned symbolic values
	a, b := vr.SymbolizeI64(-7), vr.SymbolizeI64(3)
	vr.Report("div", fmt.Sprint(a/b, a%b, a<<2, a>>1, uint64(a)>>60, int32(a), uint8(a), a&b, a|b, a^b, a&^b))
	vr.Report("minmax", fmt.Sprint(min(a, b), max(a, b)))
	// the Reader on a small TOC
	ents := []*TOCEntry{{Name: "d/", Type: "dir"}, {Name: "d/f", Type: "reg", Size: 10, ChunkSize: 4, Offset: 100},
		{Name: "d/f", Type: "chunk", ChunkOffset: 4, ChunkSize: 4, Offset: 200}, {Name: "d/f", Type: "chunk", ChunkOffset: 8, Offset: 300},
		{Name: "l", Type: "hardlink", LinkName: "d/f"}}
	r := &Reader{toc: &JTOC{Version: 1, Entries: ents}, sr: nil}
	_ = r
	vr.Reach("end")
}
