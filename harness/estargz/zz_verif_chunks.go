//go:build verif

package estargz

import (
	"io"

	vr "github.com/containerd/stargz-snapshotter/estargz/zzverifrt"
)

// C02/H1: chunk lookup by offset. The Reader is built by the real initFields from a TOC whose numeric fields are
// symbolic: one regular file "f" split into n chunks (valid layout: contiguous from 0, every chunk non-empty;
// the last chunk may leave ChunkSize 0 = "to the end" as the builder does). For every offset the entry returned by
// ChunkEntryForOffset must be the chunk that contains it, and offsets at or past the end must not resolve.
func VerifH_C02_chunkEntryForOffset() {
	maxN := 3
	if vr.Tier() > 0 {
		maxN = 5
	}
	n := 1 + vr.Len("nchunks", maxN-1)
	const lim = int64(1) << 40
	sizes := make([]int64, n)
	total := int64(0)
	for i := range sizes {
		sizes[i] = vr.I64("size")
		vr.Assume(1 <= sizes[i] && sizes[i] < lim)
		total += sizes[i]
	}
	ents := make([]*TOCEntry, 0, n+1)
	ents = append(ents, &TOCEntry{Name: "d/", Type: "dir"})
	off := int64(0)
	lastZero := vr.Bool("lastChunkSizeOmitted")
	for i := 0; i < n; i++ {
		e := &TOCEntry{Name: "d/f", Type: "chunk", ChunkOffset: off, ChunkSize: sizes[i], ChunkDigest: "sha256:c"}
		if i == 0 {
			e.Type = "reg"
			e.Size = total
			e.Digest = "sha256:f"
		}
		if i == n-1 && (lastZero || n == 1) {
			e.ChunkSize = 0
		}
		e.Offset = int64(100 * (i + 1))
		ents = append(ents, e)
		off += sizes[i]
	}
	r := &Reader{toc: &JTOC{Version: 1, Entries: ents}, sr: io.NewSectionReader(verifZeroReaderAt{}, 0, 1<<41)}
	if err := r.initFields(); err != nil {
		vr.Assert(false, "initFields-accepts-valid-toc")
	}
	x := vr.I64("offset")
	vr.Assume(0 <= x && x < 2*lim)
	e, ok := r.ChunkEntryForOffset("d/f", x)
	vr.Assert(ok == (x < total), "found-iff-inside-file")
	if ok {
		vr.Assert(e.ChunkOffset <= x && x < e.ChunkOffset+e.ChunkSize, "returned-chunk-contains-offset")
		// identity: it is the entry of the TOC with that chunk offset
		idx := -1
		for i := 0; i < n; i++ {
			if ents[i+1] == e {
				idx = i
			}
		}
		vr.Assert(idx >= 0, "returned-entry-belongs-to-file")
	}
	vr.Reach("end")
}
