//go:build verif

package estargz

import (
	"bufio"
	"bytes"
	"hash"
	"io"

	digest "github.com/opencontainers/go-digest"
	"github.com/vbatts/tar-split/archive/tar"

	vr "github.com/containerd/stargz-snapshotter/estargz/zzverifrt"
)

// ---- models shared by the appendTar harnesses -------------------------------------------------------------------

// verifAccHash: hash.Hash that accumulates what was written; Sum is the (natively computed) SHA-256 of it.
type verifAccHash struct{ b []byte }

func (h *verifAccHash) Write(p []byte) (int, error) { h.b = append(h.b, p...); return len(p), nil }
func (h *verifAccHash) Sum(b []byte) []byte {
	return append(b, []byte(digest.FromBytes(h.b).Encoded())...)
}
func (h *verifAccHash) Reset()         { h.b = nil }
func (h *verifAccHash) Size() int      { return 32 }
func (h *verifAccHash) BlockSize() int { return 64 }

type verifAccDigester struct{ h *verifAccHash }

func (d *verifAccDigester) Hash() hash.Hash       { return d.h }
func (d *verifAccDigester) Digest() digest.Digest { return digest.FromBytes(d.h.b) }

// verifPassCompressor: a compression format whose members are  0xAA payload 0xEE  (compression itself is outside
// the claim; what matters is where members start and what they contain). It records the blob offset of every
// member it opens and the arguments of WriteTOCAndFooter.
type verifPassCompressor struct {
	starts  []int64
	tocOff  int64
	tocSeen *JTOC
	closed  int
}

type verifPassWriter struct {
	c *verifPassCompressor
	w io.Writer
}

func (p *verifPassWriter) Write(b []byte) (int, error) { return p.w.Write(b) }
func (p *verifPassWriter) Flush() error                { return nil }
func (p *verifPassWriter) Close() error {
	p.c.closed++
	_, err := p.w.Write([]byte{0xEE})
	return err
}

func (c *verifPassCompressor) Writer(w io.Writer) (WriteFlushCloser, error) {
	c.starts = append(c.starts, w.(*countWriter).n)
	if _, err := w.Write([]byte{0xAA}); err != nil {
		return nil, err
	}
	return &verifPassWriter{c: c, w: w}, nil
}

func (c *verifPassCompressor) WriteTOCAndFooter(w io.Writer, off int64, toc *JTOC, diffHash hash.Hash) (digest.Digest, error) {
	c.tocOff, c.tocSeen = off, toc
	return "sha256:toc", nil
}

// memberPayload: the uncompressed bytes of the member that starts at blob offset off (nil, false if none does).
func (c *verifPassCompressor) memberPayload(blob []byte, off int64) ([]byte, bool) {
	for k, s := range c.starts {
		if s != off {
			continue
		}
		end := int64(len(blob))
		if k+1 < len(c.starts) {
			end = c.starts[k+1]
		}
		if end-1 < s+1 || blob[s] != 0xAA || blob[end-1] != 0xEE {
			return nil, false
		}
		return blob[s+1 : end-1], true
	}
	return nil, false
}

type verifTarEntry struct {
	h    *tar.Header
	data []byte
}

// verifInstallTarModel: archive/tar is outside the claim. Reader.Next / Read yield the given entries; Writer
// WriteHeader emits a 3-byte block (0xF0, index of the header, 0xF1), Write passes the payload through and Flush
// pads odd payloads with one 0xF3 byte (so that padding takes part in the inner-offset accounting).
// It returns the list of headers the code under test wrote, in order.
func verifInstallTarModel(w *Writer, in []verifTarEntry) *[]*tar.Header {
	pos := 0
	var cur []byte
	vr.Replace("(*github.com/vbatts/tar-split/archive/tar.Reader).Next", func(tr *tar.Reader) (*tar.Header, error) {
		if pos >= len(in) {
			return nil, io.EOF
		}
		e := in[pos]
		pos++
		cur = e.data
		return e.h, nil
	})
	vr.Replace("(*github.com/vbatts/tar-split/archive/tar.Reader).Read", func(tr *tar.Reader, p []byte) (int, error) {
		if len(cur) == 0 {
			return 0, io.EOF
		}
		n := copy(p, cur)
		cur = cur[n:]
		return n, nil
	})
	var written []*tar.Header
	odd := false
	dst := currentCompressionWriter{w}
	vr.Replace("(*github.com/vbatts/tar-split/archive/tar.Writer).WriteHeader", func(tw *tar.Writer, h *tar.Header) error {
		written = append(written, h)
		odd = false
		_, err := dst.Write([]byte{0xF0, byte(len(written) - 1), 0xF1})
		return err
	})
	vr.Replace("(*github.com/vbatts/tar-split/archive/tar.Writer).Write", func(tw *tar.Writer, p []byte) (int, error) {
		if len(p)%2 == 1 {
			odd = !odd
		}
		return dst.Write(p)
	})
	vr.Replace("(*github.com/vbatts/tar-split/archive/tar.Writer).Flush", func(tw *tar.Writer) error {
		if odd {
			odd = false
			_, err := dst.Write([]byte{0xF3})
			return err
		}
		return nil
	})
	vr.Replace("(github.com/opencontainers/go-digest.Algorithm).Digester", func(a digest.Algorithm) digest.Digester {
		return &verifAccDigester{h: &verifAccHash{}}
	})
	vr.EngineOnlyReplay("archive/tar reader and writer are replaced inside the engine by the entry-list model")
	return &written
}

func verifNewWriter(out *bytes.Buffer, c Compressor) *Writer {
	bw := bufio.NewWriter(out)
	return &Writer{bw: bw, cw: &countWriter{w: bw}, toc: &JTOC{Version: 1}, diffHash: &verifAccHash{}, compressor: c,
		uncompressedCounter: &countWriteFlusher{}}
}

// C03/H4: Writer.AppendTar + Close bookkeeping against an independent reading of docs/estargz.md. For every input
// (entry mix, sizes around the chunk size, TOC-named entries, chunk size, min-chunk-size, prioritized file):
//   - the uncompressed stream is the input's entries in order (TOC-named ones dropped), payload unchanged;
//   - every regular file is covered by reg+chunk entries with contiguous chunkOffsets, documented chunkSize
//     (0 on the last), per-chunk digest = SHA-256 of exactly those bytes, file digest = SHA-256 of the file;
//   - offset names the start of a compressed member, and the member's payload at innerOffset is the chunk;
//   - prioritized files and files after >= MinChunkSize compressed bytes start a new member;
//   - the TOC offset handed to the footer is the end of the payload, DiffID is the digest of the uncompressed stream.
func VerifH_C03_appendTarBookkeeping() {
	maxEntries, maxSize := 3, 4
	if vr.Tier() > 0 {
		maxEntries, maxSize = 4, 5
	}
	n := 1 + vr.Len("entries", maxEntries-1)
	names := []string{"a", "b", "c", "d"}
	var in []verifTarEntry
	fill := byte(1)
	for i := 0; i < n; i++ {
		h := &tar.Header{Name: names[i], Typeflag: tar.TypeDir, Mode: 0755}
		switch vr.Choice("kind", 3) {
		case 0:
			h.Typeflag = tar.TypeReg
			h.Size = int64(vr.Choice("size", maxSize+1))
		case 1:
		default:
			h.Name = TOCTarName // an already-stargzified input: dropped, never copied
			h.Typeflag = tar.TypeReg
			h.Size = 2
		}
		var data []byte
		for k := int64(0); k < h.Size; k++ {
			data = append(data, fill)
			fill++
		}
		in = append(in, verifTarEntry{h: h, data: data})
	}
	var out bytes.Buffer
	comp := &verifPassCompressor{}
	w := verifNewWriter(&out, comp)
	w.ChunkSize = 1 + vr.Choice("chunkSize", 3)
	w.MinChunkSize = []int{0, 4, 1000}[vr.Choice("minChunkSize", 3)]
	if vr.Bool("prioritized-b") {
		w.needsOpenGzEntries = map[string]struct{}{"b": {}}
	}
	written := verifInstallTarModel(w, in)

	err := w.AppendTar(bytes.NewReader(nil))
	vr.Assert(err == nil, "appendtar-accepts-a-valid-tar")
	_, err = w.Close()
	vr.Assert(err == nil, "close")
	blob := out.Bytes()
	vr.Assert(comp.tocOff == int64(len(blob)), "toc-offset-is-the-end-of-the-payload")
	vr.Assert(comp.closed == len(comp.starts), "every-member-is-closed")

	// full decompression = concatenation of member payloads
	var stream []byte
	for k, s := range comp.starts {
		p, ok := comp.memberPayload(blob, s)
		vr.Assert(ok, "blob-is-a-valid-stream-of-members")
		_ = k
		stream = append(stream, p...)
	}
	vr.Assert(bytes.Equal(w.diffHash.(*verifAccHash).b, stream), "diffid-hash-is-fed-exactly-the-uncompressed-stream")

	// expected uncompressed stream and expected TOC, from the input alone
	var want []byte
	ti := 0
	wi := 0
	toc := comp.tocSeen.Entries
	for _, e := range in {
		if e.h.Name == TOCTarName {
			continue
		}
		vr.Assert(wi < len(*written), "headers-copied")
		vr.Assert((*written)[wi] == e.h, "headers-copied-in-order")
		want = append(want, 0xF0, byte(wi), 0xF1)
		wi++
		want = append(want, e.data...)
		if len(e.data)%2 == 1 {
			want = append(want, 0xF3)
		}
		vr.Assert(ti < len(toc), "toc-has-an-entry-per-input-entry")
		first := toc[ti]
		vr.Assert(first.Name == e.h.Name && first.Mode == e.h.Mode, "toc-entry-metadata")
		if e.h.Typeflag == tar.TypeDir {
			vr.Assert(first.Type == "dir", "toc-entry-type")
			ti++
			continue
		}
		vr.Assert(first.Type == "reg" && first.Size == e.h.Size, "toc-entry-type")
		vr.Assert(first.Digest == digest.FromBytes(e.data).String(), "file-digest")
		if e.h.Size == 0 {
			ti++
			continue
		}
		cs := int64(w.ChunkSize)
		for off := int64(0); off < e.h.Size; off += cs {
			vr.Assert(ti < len(toc), "chunks-cover-the-file")
			c := toc[ti]
			ti++
			l := cs
			if e.h.Size-off < cs {
				l = e.h.Size - off
				vr.Assert(c.ChunkSize == 0, "last-short-chunk-has-chunksize-0")
			} else {
				vr.Assert(c.ChunkSize == cs, "chunksize-recorded")
			}
			if off > 0 {
				vr.Assert(c.Type == "chunk" && c.Name == e.h.Name, "continuation-entries-are-chunks-of-the-file")
			}
			vr.Assert(c.ChunkOffset == off, "chunk-offsets-contiguous")
			vr.Assert(c.ChunkDigest == digest.FromBytes(e.data[off:off+l]).String(), "chunk-digest-is-sha256-of-the-chunk")
			p, ok := comp.memberPayload(blob, c.Offset)
			vr.Assert(ok, "offset-names-the-start-of-a-member")
			vr.Assert(c.InnerOffset >= 0 && c.InnerOffset+l <= int64(len(p)), "inner-offset-inside-the-member")
			for k := int64(0); k < l; k++ {
				vr.Assert(p[c.InnerOffset+k] == e.data[off+k], "member-payload-at-inner-offset-is-the-chunk")
			}
			if off == 0 && w.needsOpenGzEntries != nil && e.h.Name == "b" {
				vr.Assert(c.InnerOffset == 0, "prioritized-file-starts-a-member")
			}
			if w.MinChunkSize == 0 {
				vr.Assert(c.InnerOffset == 0, "without-min-chunk-size-every-chunk-starts-a-member")
			}
		}
	}
	vr.Assert(ti == len(toc), "toc-has-no-extra-entries")
	vr.Assert(wi == len(*written), "no-extra-headers")
	vr.Assert(bytes.Equal(stream, want), "decompressed-stream-is-the-input-entries-in-order")
	vr.Reach("end")
}

// C03/H5: owner metadata survives Writer -> TOC -> Reader: user/group names are written only when they change for
// an id and restored by the reader; for every assignment of uids, gids and (non-empty) names the reader reports
// the input's values for every entry.
func VerifH_C03_ownerNamesRoundTrip() {
	maxEntries := 3
	if vr.Tier() > 0 {
		maxEntries = 4
	}
	n := 1 + vr.Len("entries", maxEntries-1)
	names := []string{"a", "b", "c", "d"}
	owners := []string{"x", "y"}
	var in []verifTarEntry
	for i := 0; i < n; i++ {
		h := &tar.Header{Name: names[i], Typeflag: tar.TypeDir,
			Uid: 5 + vr.Choice("uid", 2), Gid: 5 + vr.Choice("gid", 2),
			Uname: owners[vr.Choice("uname", 2)], Gname: owners[vr.Choice("gname", 2)]}
		h.Mode = vr.I64("mode")
		in = append(in, verifTarEntry{h: h})
	}
	var out bytes.Buffer
	comp := &verifPassCompressor{}
	w := verifNewWriter(&out, comp)
	verifInstallTarModel(w, in)
	vr.Assert(w.AppendTar(bytes.NewReader(nil)) == nil, "appendtar-accepts-a-valid-tar")
	_, err := w.Close()
	vr.Assert(err == nil, "close")
	r := &Reader{toc: comp.tocSeen, sr: io.NewSectionReader(bytes.NewReader(nil), 0, 1000)}
	vr.Assert(r.initFields() == nil, "reader-accepts-own-toc")
	for _, e := range in {
		got, ok := r.Lookup(e.h.Name)
		vr.Assert(ok, "entry-found")
		vr.Assert(got.UID == e.h.Uid && got.GID == e.h.Gid && got.Mode == e.h.Mode, "ids-and-mode-unchanged")
		vr.Assert(got.Uname == e.h.Uname, "user-name-unchanged")
		vr.Assert(got.Gname == e.h.Gname, "group-name-unchanged")
	}
	vr.Reach("end")
}
