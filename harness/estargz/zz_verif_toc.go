//go:build verif

package estargz

import (
	"io"

	vr "github.com/containerd/stargz-snapshotter/estargz/zzverifrt"
)

var verifNames = []string{"a", "d", "d/a", "d/l"}

// verifNameCount: the thorough tier builds three entries over the first three names (aliasing, nesting and cycles are
// all still expressible), the quick tier two entries over all four.
func verifNameCount() int {
	if vr.Tier() > 0 {
		return 3
	}
	return len(verifNames)
}

// verifTOCEntry builds one TOC entry of arbitrary type with a name (and link target) from a small set of paths
// that can alias, nest and form cycles; every numeric field is an arbitrary int64.
func verifTOCEntry(k int) *TOCEntry {
	e := &TOCEntry{}
	switch vr.Choice("type", 5) {
	case 0:
		e.Type = "reg"
		e.Name = verifNames[vr.Choice("name", verifNameCount())]
		e.Size = vr.I64("size")
		e.ChunkSize = vr.I64("chunksize")
		e.ChunkOffset = vr.I64("chunkoffset")
		e.Offset = vr.I64("offset")
		e.InnerOffset = vr.I64("inneroffset")
	case 1:
		e.Type = "chunk"
		e.ChunkSize = vr.I64("chunksize")
		e.ChunkOffset = vr.I64("chunkoffset")
		e.Offset = vr.I64("offset")
		e.InnerOffset = vr.I64("inneroffset")
	case 2:
		e.Type = "dir"
		e.Name = verifNames[vr.Choice("name", verifNameCount())] + "/"
	case 3:
		e.Type = "hardlink"
		e.Name = verifNames[vr.Choice("name", verifNameCount())]
		e.LinkName = verifNames[vr.Choice("link", verifNameCount())]
	default:
		e.Type = "symlink"
		e.Name = verifNames[vr.Choice("name", verifNameCount())]
		e.LinkName = "x"
	}
	return e
}

// C04/H3: adversarial TOC structure through initFields and the lookups built on it: no panic, bounded recursion.
func VerifH_C04_tocStructure() {
	k := 2
	if vr.Tier() > 0 {
		k = 3
	}
	var ents []*TOCEntry
	for i := 0; i < k; i++ {
		ents = append(ents, verifTOCEntry(i))
	}
	r := &Reader{toc: &JTOC{Version: 1, Entries: ents}, sr: io.NewSectionReader(verifZeroReaderAt{}, 0, 1000)}
	if err := r.initFields(); err != nil {
		vr.Reach("rejected")
		return
	}
	for _, n := range verifNames {
		if e, ok := r.Lookup(n); ok {
			_ = e.Stat().Mode()
			e.ForeachChild(func(baseName string, ent *TOCEntry) bool { return true })
			x := vr.I64("probe")
			_, _ = r.ChunkEntryForOffset(n, x)
		}
	}
	vr.Reach("end")
}
