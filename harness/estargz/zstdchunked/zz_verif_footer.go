//go:build verif

package zstdchunked

import vr "github.com/containerd/stargz-snapshotter/estargz/zzverifrt"

// C04/H1 (zstd:chunked): ParseFooter on arbitrary bytes of every length 0..60.
func VerifH_C04_footerZstd() {
	n := vr.Len("n", 60)
	p := vr.Bytes("p", n)
	_, _, _, _ = (&Decompressor{}).ParseFooter(p)
	vr.Reach("end")
}
