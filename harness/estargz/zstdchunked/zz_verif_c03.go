//go:build verif

package zstdchunked

import vr "github.com/containerd/stargz-snapshotter/estargz/zzverifrt"

// C03/H1 (zstd:chunked): footer round trip for every 64-bit triple.
func VerifH_C03_zstdFooterRoundTrip() {
	off, raw, comp := vr.U64("tocOff"), vr.U64("tocRaw"), vr.U64("tocCompressed")
	p := zstdFooterBytes(off, raw, comp)
	vr.Assert(len(p) == FooterSize && FooterSize == 40, "footer-is-40-bytes")
	payload, tocOff, tocSize, err := (&Decompressor{}).ParseFooter(p)
	vr.Assert(err == nil, "own-footer-parses")
	vr.Assert(uint64(tocOff) == off && uint64(tocSize) == comp && uint64(payload) == off-8, "footer-round-trips")
	vr.Reach("end")
}
