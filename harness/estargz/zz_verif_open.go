//go:build verif

package estargz

import (
	"errors"
	"io"

	digest "github.com/opencontainers/go-digest"

	vr "github.com/containerd/stargz-snapshotter/estargz/zzverifrt"
)

// verifDecomp is a Decompressor whose footer parser reports arbitrary numbers: the real parsers can report any
// int64 TOC offset (gzip: 16 hex digits with optional sign through strconv.ParseInt; zstd:chunked: raw little-endian
// words) and, for zstd:chunked, any int64 TOC size. ParseTOC always fails, so Open ends after the arithmetic.
type verifDecomp struct {
	fsize, payload, off, size int64
	fail                      bool
}

var errVerif = errors.New("verif: model error")

func (d *verifDecomp) Reader(r io.Reader) (io.ReadCloser, error) { return nil, errVerif }
func (d *verifDecomp) FooterSize() int64                         { return d.fsize }
func (d *verifDecomp) ParseFooter(p []byte) (int64, int64, int64, error) {
	if d.fail {
		return 0, 0, 0, errVerif
	}
	return d.payload, d.off, d.size, nil
}
func (d *verifDecomp) ParseTOC(r io.Reader) (*JTOC, digest.Digest, error) { return nil, "", errVerif }
func (d *verifDecomp) DecompressTOC(r io.Reader) (io.ReadCloser, error)   { return nil, errVerif }

type verifZeroReaderAt struct{}

func (verifZeroReaderAt) ReadAt(p []byte, off int64) (int, error) {
	for i := range p {
		p[i] = 0
	}
	return len(p), nil
}

// C04/H2: the arithmetic of Open between the footer and the TOC, for every blob size up to the bound, every
// WithTOCOffset value and every (offset, size) pair a footer can report. Blob bytes are zeros, so the two built-in
// gzip parsers reject the footer concretely and the model decompressor decides.
// Stated cut: TOC sizes in (maxAlloc, 2^48] are excluded (plain large allocations; memory exhaustion is outside the
// claim); sizes above 2^48 (make panics) and all negative sizes are included.
func VerifH_C04_openArith() {
	maxBlob := int64(56)
	if vr.Tier() > 0 {
		maxBlob = 110
	}
	const maxAlloc = 64
	size := vr.I64("blobsize")
	vr.Assume(0 <= size && size <= maxBlob)
	d := &verifDecomp{payload: vr.I64("payload"), off: vr.I64("tocoff"), size: vr.I64("tocsize")}
	d.fsize = []int64{FooterSize, 40, 0}[vr.Choice("fsize", 3)]
	vr.Assume(d.size <= maxAlloc || d.size > 1<<48)
	optOff := vr.I64("optoff")
	sr := io.NewSectionReader(verifZeroReaderAt{}, 0, size)
	r, err := Open(sr, WithTOCOffset(optOff), WithDecompressors(d))
	vr.Assert(r == nil && err != nil, "open-must-fail-without-toc")
	vr.Reach("end")
}
