//go:build verif

package estargz

import (
	"archive/tar"
	"bytes"
	"io"
	"path"
	"strings"

	vr "github.com/containerd/stargz-snapshotter/estargz/zzverifrt"
)

// names as they may be spelled in an input tar (prefixes ./ and /, directories with trailing slash, landmarks)
var verifTarNames = []string{"a", "./a", "d/", "d/a", "/d/b", "./" + NoPrefetchLandmark}
var verifPrioNames = []string{"a", "./d/a", "d/b", "zz", ""}

type verifHdr struct {
	name, link string
	typ        byte
}

func verifIsLandmark(n string) bool {
	c := cleanEntryName(n)
	return c == PrefetchLandmark || c == NoPrefetchLandmark
}

// C14/H1: sortEntries (real importTar loop over a modelled tar.Reader, real moveRec / tarFile) on symbolic tars and
// prioritized lists: no entry lost or duplicated, exactly one landmark of the right kind, prioritized files (with
// their not-yet-placed ancestors and hardlink targets) first and in the order given, the rest in input order,
// missing names abort or are reported as selected.
func VerifH_C14_sortEntriesLayout() {
	maxEnts, maxPrio := 2, 2
	if vr.Tier() > 0 {
		maxEnts, maxPrio = 3, 2
	}
	ne := vr.Len("entries", maxEnts)
	var hdrs []verifHdr
	for i := 0; i < ne; i++ {
		h := verifHdr{name: verifTarNames[vr.Choice("name", len(verifTarNames))], typ: tar.TypeReg}
		if strings.HasSuffix(h.name, "/") {
			h.typ = tar.TypeDir
		} else if !verifIsLandmark(h.name) && vr.Bool("isHardlink") {
			h.typ = tar.TypeLink
			h.link = []string{"a", "d/a"}[vr.Choice("linkname", 2)]
		}
		hdrs = append(hdrs, h)
	}
	// stated assumption: hardlinks do not form cycles (following link names from any entry ends at a non-link or at a
	// missing name within len(hdrs) steps); such a tar cannot be extracted by any tar implementation
	for _, h := range hdrs {
		cur := cleanEntryName(h.name)
		for step := 0; step <= len(hdrs); step++ {
			next := ""
			for _, o := range hdrs { // the last duplicate wins
				if o.typ == tar.TypeLink && cleanEntryName(o.name) == cur {
					next = cleanEntryName(o.link)
				} else if cleanEntryName(o.name) == cur {
					next = ""
				}
			}
			if next == "" {
				break
			}
			vr.Assume(step < len(hdrs))
			cur = next
		}
	}
	np := vr.Len("prioritized", maxPrio)
	var prio []string
	for i := 0; i < np; i++ {
		prio = append(prio, verifPrioNames[vr.Choice("prio", len(verifPrioNames))])
	}
	allowMissing := vr.Bool("allowNotFound")

	// archive/tar is outside the claim: Reader.Next yields the symbolic header list
	pos := 0
	vr.Replace("(*archive/tar.Reader).Next", func(tr *tar.Reader) (*tar.Header, error) {
		if pos >= len(hdrs) {
			return nil, io.EOF
		}
		h := hdrs[pos]
		pos++
		return &tar.Header{Name: h.name, Linkname: h.link, Typeflag: h.typ}, nil
	})
	vr.EngineOnlyReplay("archive/tar.Reader.Next is replaced inside the engine by the symbolic header list")

	var missed []string
	var missedPtr *[]string
	if allowMissing {
		missedPtr = &missed
	}
	out, err := sortEntries(bytes.NewReader(nil), prio, missedPtr)

	// effective input: landmarks dropped, the last duplicate of a (clean) name wins and takes the later position
	var eff []verifHdr
	for _, h := range hdrs {
		if verifIsLandmark(h.name) {
			continue
		}
		var kept []verifHdr
		for _, e := range eff {
			if cleanEntryName(e.name) != cleanEntryName(h.name) {
				kept = append(kept, e)
			}
		}
		eff = append(kept, h)
	}
	exists := func(n string) bool {
		for _, e := range eff {
			if cleanEntryName(e.name) == cleanEntryName(n) {
				return true
			}
		}
		return false
	}
	// a prioritized name is resolvable iff it exists and every hardlink target reachable from it exists
	resolvable := func(p string) bool {
		cur := cleanEntryName(p)
		if cur == "" {
			return true
		}
		for depth := 0; depth < 5; depth++ {
			if !exists(cur) {
				return false
			}
			next := ""
			for _, e := range eff {
				if cleanEntryName(e.name) == cur && e.typ == tar.TypeLink {
					next = cleanEntryName(e.link)
				}
			}
			if next == "" {
				return true
			}
			cur = next
		}
		return true
	}
	anyMissing := false
	for _, p := range prio {
		if !resolvable(p) {
			anyMissing = true
		}
	}
	if err != nil {
		vr.Assert(anyMissing && !allowMissing, "sort-fails-only-for-a-missing-path-when-not-allowed")
		vr.Reach("aborted")
		return
	}
	vr.Assert(!anyMissing || allowMissing, "missing-path-aborts-unless-allowed")
	if allowMissing {
		vr.Assert((len(missed) > 0) == anyMissing, "missing-paths-reported-back")
	}

	// exactly one landmark of the right kind
	lm, lmPos := 0, -1
	for i, e := range out {
		if verifIsLandmark(e.header.Name) {
			lm++
			lmPos = i
			want := PrefetchLandmark
			if len(prio) == 0 {
				want = NoPrefetchLandmark
			}
			vr.Assert(e.header.Name == want, "landmark-kind")
		}
	}
	vr.Assert(lm == 1, "exactly-one-landmark")
	// no entry lost or duplicated
	vr.Assert(len(out) == len(eff)+1, "no-entry-lost-or-duplicated")
	for _, e := range eff {
		cnt := 0
		for _, o := range out {
			if o.header.Name == e.name && o.header.Typeflag == e.typ && o.header.Linkname == e.link {
				cnt++
			}
		}
		vr.Assert(cnt >= 1, "every-input-entry-present")
	}
	posOf := func(n string) int {
		for i, o := range out {
			if !verifIsLandmark(o.header.Name) && cleanEntryName(o.header.Name) == cleanEntryName(n) {
				return i
			}
		}
		return -1
	}
	// prioritized entries (those fully resolvable) lie before the landmark, after their ancestors and link targets
	for _, p := range prio {
		if cleanEntryName(p) == "" || !exists(p) {
			continue
		}
		pp := posOf(p)
		if !resolvable(p) {
			continue
		}
		vr.Assert(pp >= 0 && pp < lmPos, "prioritized-entry-before-landmark")
		for anc := parentOf(p); anc != ""; anc = parentOf(anc) {
			if exists(anc) {
				vr.Assert(posOf(anc) < pp, "ancestors-placed-before-the-file")
			}
		}
		for _, e := range eff {
			if cleanEntryName(e.name) == cleanEntryName(p) && e.typ == tar.TypeLink {
				vr.Assert(posOf(e.link) < pp, "hardlink-target-placed-before-the-link")
			}
		}
	}
	// the rest keeps its input order
	last := -1
	for _, o := range out[lmPos+1:] {
		idx := -1
		for i, e := range eff {
			if e.name == o.header.Name {
				idx = i
			}
		}
		vr.Assert(idx > last, "rest-in-original-relative-order")
		last = idx
	}
	// only prioritized names, their ancestors and their link targets are moved in front of the landmark
	for _, o := range out[:lmPos] {
		ok := false
		for _, p := range prio {
			if verifRelated(eff, p, o.header.Name) {
				ok = true
			}
		}
		vr.Assert(ok, "only-prioritized-closure-before-landmark")
	}
	vr.Reach("end")
}

func parentOf(n string) string {
	d, _ := path.Split(strings.TrimSuffix(cleanEntryName(n), "/"))
	return cleanEntryName(d)
}

// verifRelated: x is p itself, an ancestor of p, or (an ancestor of) a hardlink target reachable from p.
func verifRelated(eff []verifHdr, p, x string) bool {
	cx := cleanEntryName(x)
	cur := cleanEntryName(p)
	for depth := 0; depth < 4; depth++ {
		if cur == cx {
			return true
		}
		for anc := parentOf(cur); ; anc = parentOf(anc) {
			if anc == cx {
				return true
			}
			if anc == "" {
				break
			}
		}
		next := ""
		for _, e := range eff {
			if cleanEntryName(e.name) == cur && e.typ == tar.TypeLink {
				next = cleanEntryName(e.link)
			}
		}
		if next == "" {
			return false
		}
		cur = next
	}
	return false
}
