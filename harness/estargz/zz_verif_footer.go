//go:build verif

package estargz

import (
	"hash/crc32"

	vr "github.com/containerd/stargz-snapshotter/estargz/zzverifrt"
)

// C04/H1: the footer parsers are fed arbitrary bytes of the exact footer length (other lengths are rejected by the
// first statement, covered by the length harness below). The real compress/gzip header parser is executed
// symbolically; no model of gzip is involved.
// Stated cuts (stdlib behaviour, not repo code): the gzip header-CRC flag is assumed clear (a CRC over symbolic bytes
// is beyond the solvers), and the declared Extra length is assumed <= 40 (every larger value ends in
// io.ErrUnexpectedEOF inside compress/gzip because the footer has fewer bytes left).
func verifGzipHeaderCuts(p []byte) {
	// with the header-CRC flag clear the CRC value is dead: replace it by an arbitrary value instead of computing it
	vr.Replace("hash/crc32.ChecksumIEEE", func(b []byte) uint32 { return vr.U32("~crc") })
	vr.Replace("hash/crc32.Update", func(crc uint32, tab *crc32.Table, b []byte) uint32 { return vr.U32("~crc") })
	vr.Assume(p[3]&0x02 == 0)
	vr.Assume(p[3]&0x04 == 0 || (p[11] == 0 && p[10] <= 40))
	// FNAME/FCOMMENT strings are parsed by compress/gzip and never read by the repo: excluded in the quick tier;
	// the thorough tier admits an ASCII FNAME (each name byte forks on NUL).
	if vr.Tier() == 0 {
		vr.Assume(p[3]&0x18 == 0)
	} else {
		vr.Assume(p[3]&0x10 == 0)
		for i := 10; i < len(p); i++ {
			vr.Assume(p[3]&0x08 == 0 || p[i] < 0x80)
		}
	}
}

func VerifH_C04_footerGzip() {
	p := vr.Bytes("p", FooterSize)
	verifGzipHeaderCuts(p)
	_, _, _, _ = (&GzipDecompressor{}).ParseFooter(p)
	vr.Reach("end")
}

func VerifH_C04_footerLegacy() {
	p := vr.Bytes("p", legacyFooterSize)
	verifGzipHeaderCuts(p)
	_, _, _, _ = (&LegacyGzipDecompressor{}).ParseFooter(p)
	vr.Reach("end")
}

// every length 0..60 with arbitrary content (the length check is the only thing exercised for wrong lengths)
func VerifH_C04_footerLengths() {
	n := vr.Len("n", 60)
	p := vr.Bytes("p", n)
	if n != FooterSize {
		_, _, _, err := (&GzipDecompressor{}).ParseFooter(p)
		vr.Assert(err != nil, "footer-gzip-len-rejected")
	}
	if n != legacyFooterSize {
		_, _, _, err := (&LegacyGzipDecompressor{}).ParseFooter(p)
		vr.Assert(err != nil, "footer-legacy-len-rejected")
	}
	vr.Reach("end")
}
