//go:build verif

package externaltoc

import vr "github.com/containerd/stargz-snapshotter/estargz/zzverifrt"

// C03/H1 (external TOC): the footer parses back to the "TOC is external" convention.
func VerifH_C03_externalFooterRoundTrip() {
	p, err := gzipFooterBytes()
	vr.Assert(err == nil && len(p) == FooterSize && FooterSize == 46, "footer-is-46-bytes")
	payload, tocOff, tocSize, perr := (&GzipDecompressor{}).ParseFooter(p)
	vr.Assert(perr == nil && payload == -1 && tocOff == -1 && tocSize == 0, "external-footer-round-trips")
	vr.Reach("end")
}
