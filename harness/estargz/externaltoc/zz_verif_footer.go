//go:build verif

package externaltoc

import (
	"hash/crc32"

	vr "github.com/containerd/stargz-snapshotter/estargz/zzverifrt"
)

// C04/H1 (external TOC): ParseFooter on arbitrary bytes of the footer length, real compress/gzip header parser.
// Same stated cuts as the estargz footer harness (header CRC flag clear, Extra length <= 40, FNAME/FCOMMENT clear
// in the quick tier).
func VerifH_C04_footerExternal() {
	p := vr.Bytes("p", FooterSize)
	vr.Replace("hash/crc32.ChecksumIEEE", func(b []byte) uint32 { return vr.U32("~crc") })
	vr.Replace("hash/crc32.Update", func(crc uint32, tab *crc32.Table, b []byte) uint32 { return vr.U32("~crc") })
	vr.Assume(p[3]&0x02 == 0)
	vr.Assume(p[3]&0x04 == 0 || (p[11] == 0 && p[10] <= 40))
	if vr.Tier() == 0 {
		vr.Assume(p[3]&0x18 == 0)
	} else {
		vr.Assume(p[3]&0x10 == 0)
		for i := 10; i < len(p); i++ {
			vr.Assume(p[3]&0x08 == 0 || p[i] < 0x80)
		}
	}
	_, _, _, _ = (&GzipDecompressor{}).ParseFooter(p)
	vr.Reach("end")
}
