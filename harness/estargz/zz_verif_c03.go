//go:build verif

package estargz

import (
	"archive/tar"
	"hash/crc32"

	vr "github.com/containerd/stargz-snapshotter/estargz/zzverifrt"
)

// C03/H1: the eStargz gzip footer written for any TOC offset parses back (real compress/gzip header parser) to
// that offset, has the documented size and the documented fixed bytes.
func VerifH_C03_gzipFooterRoundTrip() {
	vr.Replace("hash/crc32.ChecksumIEEE", func(b []byte) uint32 { return vr.U32("~crc") })
	vr.Replace("hash/crc32.Update", func(crc uint32, tab *crc32.Table, b []byte) uint32 { return vr.U32("~crc") })
	off := vr.I64("tocOffset")
	vr.Assume(off >= 0)
	p := gzipFooterBytes(off)
	vr.Assert(len(p) == FooterSize && FooterSize == 51, "footer-is-51-bytes")
	// fixed bytes per docs/estargz.md: gzip header with FEXTRA, SG subfield of length 22, final empty stored block
	vr.Assert(p[0] == 0x1f && p[1] == 0x8b && p[2] == 8 && p[3] == 4 && p[10] == 26 && p[11] == 0 &&
		p[12] == 'S' && p[13] == 'G' && p[14] == 22 && p[15] == 0, "documented-header-bytes")
	vr.Assert(string(p[32:38]) == "STARGZ" && p[38] == 1 && p[39] == 0 && p[40] == 0 && p[41] == 0xff && p[42] == 0xff, "documented-trailer-bytes")
	payload, tocOff, tocSize, err := (&GzipDecompressor{}).ParseFooter(p)
	vr.Assert(err == nil, "own-footer-parses")
	vr.Assert(tocOff == off && payload == off && tocSize == 0, "footer-round-trips-toc-offset")
	// the legacy parser must not mistake it for a legacy footer of a different offset
	vr.Reach("end")
}

// C03/H3: divideEntries (parallel sub-blob split): the parts concatenate to the input, in order, nothing lost or
// duplicated, for every size assignment and worker count.
func VerifH_C03_divideEntriesPartition() {
	maxN := 4
	if vr.Tier() > 0 {
		maxN = 6
	}
	n := vr.Len("entries", maxN)
	var ents []*entry
	for i := 0; i < n; i++ {
		sz := vr.I64("size")
		vr.Assume(0 <= sz && sz < 1<<40)
		ents = append(ents, &entry{header: &tar.Header{Size: sz}})
	}
	parts := 1 + vr.Choice("minParts", 4)
	set := divideEntries(ents, parts)
	k := 0
	for _, part := range set {
		for _, e := range part {
			vr.Assert(k < len(ents) && e == ents[k], "parts-concatenate-to-the-input-in-order")
			k++
		}
	}
	vr.Assert(k == len(ents), "no-entry-lost")
	vr.Reach("end")
}
