//go:build verif

package db

import (
	"bytes"
	"errors"
	"os"

	"github.com/containerd/stargz-snapshotter/metadata"
	bolt "go.etcd.io/bbolt"

	vr "github.com/containerd/stargz-snapshotter/cmd/zzverifrt"
)

// ---- bbolt bucket model: nested key -> value maps, ForEach in byte order of the keys (the bbolt contract) -------

type verifBkt struct {
	keys [][]byte
	vals [][]byte // nil for sub-buckets
	subs []*bolt.Bucket
}

var verifBkts map[*bolt.Bucket]*verifBkt

func verifNewBucket() *bolt.Bucket {
	b := &bolt.Bucket{}
	verifBkts[b] = &verifBkt{}
	return b
}

func (m *verifBkt) find(k []byte) int {
	for i := range m.keys {
		if bytes.Equal(m.keys[i], k) {
			return i
		}
	}
	return -1
}

func verifInstallBolt() {
	verifBkts = map[*bolt.Bucket]*verifBkt{}
	vr.EngineOnlyReplay("bbolt.Bucket is a concrete struct: its methods are replaced by the bucket model inside the engine")
	vr.Replace("(*go.etcd.io/bbolt.Bucket).Put", func(b *bolt.Bucket, k, v []byte) error {
		m := verifBkts[b]
		if len(k) == 0 {
			return errors.New("key required")
		}
		kc, vc := append([]byte(nil), k...), append([]byte{}, v...)
		if i := m.find(k); i >= 0 {
			if m.subs[i] != nil {
				return errors.New("incompatible value")
			}
			m.vals[i] = vc
			return nil
		}
		m.keys, m.vals, m.subs = append(m.keys, kc), append(m.vals, vc), append(m.subs, nil)
		return nil
	})
	vr.Replace("(*go.etcd.io/bbolt.Bucket).Get", func(b *bolt.Bucket, k []byte) []byte {
		m := verifBkts[b]
		if i := m.find(k); i >= 0 && m.subs[i] == nil {
			return m.vals[i]
		}
		return nil
	})
	vr.Replace("(*go.etcd.io/bbolt.Bucket).Bucket", func(b *bolt.Bucket, k []byte) *bolt.Bucket {
		m := verifBkts[b]
		if i := m.find(k); i >= 0 {
			return m.subs[i]
		}
		return nil
	})
	vr.Replace("(*go.etcd.io/bbolt.Bucket).CreateBucket", func(b *bolt.Bucket, k []byte) (*bolt.Bucket, error) {
		m := verifBkts[b]
		if m.find(k) >= 0 {
			return nil, errors.New("bucket already exists")
		}
		nb := verifNewBucket()
		m.keys, m.vals, m.subs = append(m.keys, append([]byte(nil), k...)), append(m.vals, nil), append(m.subs, nb)
		return nb, nil
	})
	vr.Replace("(*go.etcd.io/bbolt.Bucket).DeleteBucket", func(b *bolt.Bucket, k []byte) error {
		m := verifBkts[b]
		i := m.find(k)
		if i < 0 || m.subs[i] == nil {
			return errors.New("bucket not found")
		}
		m.keys = append(m.keys[:i:i], m.keys[i+1:]...)
		m.vals = append(m.vals[:i:i], m.vals[i+1:]...)
		m.subs = append(m.subs[:i:i], m.subs[i+1:]...)
		return nil
	})
	vr.Replace("(*go.etcd.io/bbolt.Bucket).ForEach", func(b *bolt.Bucket, fn func(k, v []byte) error) error {
		m := verifBkts[b]
		// visit in byte order of the keys
		order := make([]int, len(m.keys))
		for i := range order {
			order[i] = i
		}
		for i := 1; i < len(order); i++ {
			for j := i; j > 0 && bytes.Compare(m.keys[order[j]], m.keys[order[j-1]]) < 0; j-- {
				order[j], order[j-1] = order[j-1], order[j]
			}
		}
		for _, i := range order {
			if err := fn(m.keys[i], m.vals[i]); err != nil {
				return err
			}
		}
		return nil
	})
}

// C05/A1: writeAttr -> readAttr round trip for every attribute value, under every map iteration order.
func VerifH_C05_attrRoundTrip() {
	verifInstallBolt()
	vr.MapOrders(true)
	// one numeric field at a time ranges over its full width (the varint encoder forks once per 7-bit group; all
	// fields symbolic at once would be 10^7 paths); the others hold small non-zero values
	a := metadata.Attr{Size: 3, UID: 1, GID: 2, DevMajor: 4, DevMinor: 5, NumLink: 2, Mode: 0644}
	switch vr.Choice("field", 8) {
	case 0:
		a.Size = vr.I64("size")
	case 1:
		a.UID = vr.Int("uid")
	case 2:
		a.GID = vr.Int("gid")
	case 3:
		a.DevMajor = vr.Int("devmajor")
	case 4:
		a.DevMinor = vr.Int("devminor")
	case 5:
		a.NumLink = vr.Int("numlink")
	case 6:
		a.Mode = os.FileMode(vr.U32("mode"))
	default:
		a = metadata.Attr{} // all zero: nothing is written at all
		a.NumLink = 1
	}
	vr.Assume(a.NumLink >= 1 && a.NumLink < 1<<40)
	if vr.Bool("hasLinkName") {
		a.LinkName = vr.Str("linkname", 2)
	}
	nx := vr.Len("xattrs", 2)
	xkeys := []string{"user.a", "user.b"}
	if nx > 0 {
		a.Xattrs = map[string][]byte{}
	}
	for i := 0; i < nx; i++ {
		a.Xattrs[xkeys[i]] = vr.Bytes("xattrval", vr.Len("xattrlen", 1))
	}
	b := verifNewBucket()
	vr.Assert(writeAttr(b, &a) == nil, "writeAttr-succeeds")
	var got metadata.Attr
	vr.Assert(readAttr(b, &got) == nil, "readAttr-succeeds")
	vr.Assert(got.Size == a.Size && got.UID == a.UID && got.GID == a.GID && got.DevMajor == a.DevMajor &&
		got.DevMinor == a.DevMinor && got.Mode == a.Mode && got.LinkName == a.LinkName, "scalar-attributes-round-trip")
	// a link count of 1 is stored as "absent" and read back as 0, which every consumer treats as 1
	gl := got.NumLink
	if gl == 0 {
		gl = 1
	}
	vr.Assert(gl == a.NumLink && readNumLink(b) == a.NumLink, "link-count-round-trips")
	vr.Assert(len(got.Xattrs) == len(a.Xattrs), "no-xattr-lost")
	for k, v := range a.Xattrs {
		gv, ok := got.Xattrs[k]
		vr.Assert(ok && bytes.Equal(gv, v), "xattr-round-trips")
	}
	vr.Reach("end")
}

// C05/A2: chunk list written by writeMetadataEntry and read back by readChunks: same order (by chunk offset), same
// offsets / inner offsets / digests, and the chunk sizes recomputed from neighbouring offsets equal the originals.
func VerifH_C05_chunkRoundTrip() {
	verifInstallBolt()
	maxN := 3
	if vr.Tier() > 0 {
		maxN = 4
	}
	n := 1 + vr.Len("chunks", maxN-1)
	const lim = int64(1) << 40
	var chunks []chunkEntry
	off := int64(0)
	for i := 0; i < n; i++ {
		sz := vr.I64("chunksize")
		vr.Assume(1 <= sz && sz < lim)
		chunks = append(chunks, chunkEntry{offset: vr.I64("offset"), chunkOffset: off, chunkSize: sz,
			chunkDigest: []string{"sha256:c0", "sha256:c1", "sha256:c2", "sha256:c3"}[i], innerOffset: vr.I64("inneroffset")})
		off += sz
	}
	md := verifNewBucket()
	vr.Assert(writeMetadataEntry(md, &metadataEntry{chunks: chunks}) == nil, "writeMetadataEntry-succeeds")
	got, err := readChunks(md, off)
	vr.Assert(err == nil && len(got) == n, "all-chunks-read-back")
	for i := 0; i < n && i < len(got); i++ {
		vr.Assert(got[i].chunkOffset == chunks[i].chunkOffset, "chunks-ordered-by-chunk-offset")
		vr.Assert(got[i].chunkSize == chunks[i].chunkSize, "chunk-size-recomputed-correctly")
		vr.Assert(got[i].offset == chunks[i].offset && got[i].innerOffset == chunks[i].innerOffset && got[i].chunkDigest == chunks[i].chunkDigest, "chunk-fields-round-trip")
	}
	vr.Reach("end")
}

// C05/A3: id and integer codecs.
func VerifH_C05_intCodecs() {
	id := vr.U32("id")
	vr.Assert(decodeID(encodeID(id)) == id, "id-codec-round-trips")
	ch := chunkEntry{offset: vr.I64("o"), chunkOffset: vr.I64("co"), innerOffset: vr.I64("io"), chunkDigest: "sha256:x"}
	d, err := decodeChunkEntry(encodeChunkEntry(ch))
	vr.Assert(err == nil && d.offset == ch.offset && d.chunkOffset == ch.chunkOffset && d.innerOffset == ch.innerOffset && d.chunkDigest == ch.chunkDigest, "chunk-entry-codec-round-trips")
	vr.Reach("end")
}
