//go:build verif

package db

import (
	json "github.com/goccy/go-json"
	"io"
	"os"

	"github.com/containerd/stargz-snapshotter/estargz"
	"github.com/containerd/stargz-snapshotter/metadata"
	"github.com/containerd/stargz-snapshotter/metadata/memory"
	digest "github.com/opencontainers/go-digest"
	bolt "go.etcd.io/bbolt"
	"golang.org/x/sync/errgroup"

	vb "github.com/containerd/stargz-snapshotter/cmd/zzverifbolt"
	vr "github.com/containerd/stargz-snapshotter/cmd/zzverifrt"
)

// ---- TOC source model -------------------------------------------------------------------------------------------
// Decoding the TOC JSON (encoding/json, reflection) is outside the claim. Both stores get the same decoded entry
// list: the memory store through estargz.Open (replaced: real initFields on a copy of the list), the db store through
// its streaming decoder (replaced: Decode fills the caller's *reused* TOCEntry with json semantics - a field that
// is absent from the document, i.e. zero with omitempty, keeps whatever the struct held before; maps are merged).

func verifCopyEntry(s *estargz.TOCEntry) *estargz.TOCEntry {
	c := *s
	if s.Xattrs != nil {
		c.Xattrs = map[string][]byte{}
		for k, v := range s.Xattrs {
			c.Xattrs[k] = append([]byte{}, v...)
		}
	}
	return &c
}

func verifJSONDecodeInto(e *estargz.TOCEntry, s *estargz.TOCEntry) {
	e.Name, e.Type = s.Name, s.Type // no omitempty
	if s.Size != 0 {
		e.Size = s.Size
	}
	if s.ModTime3339 != "" {
		e.ModTime3339 = s.ModTime3339
	}
	if s.LinkName != "" {
		e.LinkName = s.LinkName
	}
	if s.Mode != 0 {
		e.Mode = s.Mode
	}
	if s.UID != 0 {
		e.UID = s.UID
	}
	if s.GID != 0 {
		e.GID = s.GID
	}
	if s.Uname != "" {
		e.Uname = s.Uname
	}
	if s.Gname != "" {
		e.Gname = s.Gname
	}
	if s.Offset != 0 {
		e.Offset = s.Offset
	}
	if s.InnerOffset != 0 {
		e.InnerOffset = s.InnerOffset
	}
	if s.DevMajor != 0 {
		e.DevMajor = s.DevMajor
	}
	if s.DevMinor != 0 {
		e.DevMinor = s.DevMinor
	}
	if len(s.Xattrs) != 0 {
		if e.Xattrs == nil {
			e.Xattrs = map[string][]byte{}
		}
		for k, v := range s.Xattrs {
			e.Xattrs[k] = append([]byte{}, v...)
		}
	}
	if s.Digest != "" {
		e.Digest = s.Digest
	}
	if s.ChunkOffset != 0 {
		e.ChunkOffset = s.ChunkOffset
	}
	if s.ChunkSize != 0 {
		e.ChunkSize = s.ChunkSize
	}
	if s.ChunkDigest != "" {
		e.ChunkDigest = s.ChunkDigest
	}
}

type verifNopDecompressor struct{}

func (verifNopDecompressor) Reader(r io.Reader) (io.ReadCloser, error) { return io.NopCloser(r), nil }
func (verifNopDecompressor) FooterSize() int64                         { return 0 }
func (verifNopDecompressor) ParseFooter(p []byte) (int64, int64, int64, error) {
	return 0, 0, 0, io.ErrUnexpectedEOF
}
func (verifNopDecompressor) ParseTOC(r io.Reader) (*estargz.JTOC, digest.Digest, error) {
	return nil, "", io.ErrUnexpectedEOF
}

// verifOpenBoth opens the same TOC with both stores. Returned errors are the stores' accept/reject verdicts.
func verifOpenBoth(ents []*estargz.TOCEntry, sr *io.SectionReader) (mem metadata.Reader, memErr error, dbr *reader, dbErr error) {
	vb.Install()
	vr.EngineOnlyReplay("bbolt, encoding/json's streaming decoder and estargz.Open are replaced inside the engine")
	// memory store
	vr.Replace("github.com/containerd/stargz-snapshotter/estargz.Open", func(sr *io.SectionReader, opt ...estargz.OpenOption) (*estargz.Reader, error) {
		toc := &estargz.JTOC{Version: 1}
		for _, e := range ents {
			toc.Entries = append(toc.Entries, verifCopyEntry(e))
		}
		return estargz.VerifNewReader(toc, sr, verifNopDecompressor{})
	})
	mem, memErr = memory.NewReader(sr)
	// db store
	pos := 0
	vr.Replace("github.com/goccy/go-json.NewDecoder", func(r io.Reader) *json.Decoder { return &json.Decoder{} })
	vr.Replace("(*github.com/goccy/go-json.Decoder).Token", func(d *json.Decoder) (json.Token, error) { return json.Delim('['), nil })
	vr.Replace("(*github.com/goccy/go-json.Decoder).More", func(d *json.Decoder) bool { return pos < len(ents) })
	vr.Replace("(*github.com/goccy/go-json.Decoder).Decode", func(d *json.Decoder, v any) error {
		verifJSONDecodeInto(v.(*estargz.TOCEntry), ents[pos])
		pos++
		return nil
	})
	db := vb.M.NewDB()
	dbr = &reader{db: db, sr: sr, initG: new(errgroup.Group)}
	if dbErr = dbr.initRootNode("fs1"); dbErr != nil {
		return
	}
	dbErr = dbr.initNodes(nil)
	return
}

type verifChild struct {
	name string
	id   uint32
	mode os.FileMode
}

func verifChildren(r metadata.Reader, id uint32) []verifChild {
	var out []verifChild
	err := r.ForeachChild(id, func(name string, id uint32, mode os.FileMode) bool {
		out = append(out, verifChild{name, id, mode})
		return true
	})
	vr.Assert(err == nil, "foreachchild")
	// order is not part of the contract: sort by name
	for i := 1; i < len(out); i++ {
		for j := i; j > 0 && out[j].name < out[j-1].name; j-- {
			out[j], out[j-1] = out[j-1], out[j]
		}
	}
	return out
}

func verifSameAttr(a, b metadata.Attr) {
	vr.Assert(a.Size == b.Size, "same-size")
	vr.Assert(a.Mode == b.Mode, "same-mode")
	vr.Assert(a.UID == b.UID && a.GID == b.GID, "same-owner")
	vr.Assert(a.LinkName == b.LinkName, "same-linkname")
	vr.Assert(a.DevMajor == b.DevMajor && a.DevMinor == b.DevMinor, "same-device-numbers")
	// what a container sees (fs/layer/node.go): a stored link count of zero means one
	an, bn := a.NumLink, b.NumLink
	if an == 0 {
		an = 1
	}
	if bn == 0 {
		bn = 1
	}
	vr.Assert(an == bn, "same-link-count")
	vr.Assert(a.ModTime.Equal(b.ModTime), "same-modtime")
	vr.Assert(len(a.Xattrs) == len(b.Xattrs), "same-xattr-set")
	for k, v := range a.Xattrs {
		w, ok := b.Xattrs[k]
		vr.Assert(ok && string(v) == string(w), "same-xattr-values")
	}
}

// verifSameTree compares the two stores from the given directory down.
func verifSameTree(mem metadata.Reader, dbr metadata.Reader, mid, did uint32, depth int) {
	ma, err := mem.GetAttr(mid)
	vr.Assert(err == nil, "memory-getattr")
	da, err := dbr.GetAttr(did)
	vr.Assert(err == nil, "db-getattr")
	verifSameAttr(ma, da)
	if !ma.Mode.IsDir() {
		if ma.Mode.IsRegular() {
			mf, merr := mem.OpenFile(mid)
			df, derr := dbr.OpenFile(did)
			vr.Assert((merr == nil) == (derr == nil), "openfile-same-verdict")
			if merr == nil && derr == nil {
				for off := int64(0); off <= ma.Size; off++ {
					mo, ms, md, mok := mf.ChunkEntryForOffset(off)
					do, ds, dd, dok := df.ChunkEntryForOffset(off)
					vr.Assert(mok == dok, "same-chunk-found")
					if mok && dok {
						vr.Assert(mo == do && ms == ds && md == dd, "same-chunk-boundaries-and-digest")
					}
				}
			}
		}
		return
	}
	if depth == 0 {
		return
	}
	mc, dc := verifChildren(mem, mid), verifChildren(dbr, did)
	vr.Assert(len(mc) == len(dc), "same-number-of-children")
	for i := range mc {
		if i >= len(dc) {
			break
		}
		vr.Assert(mc[i].name == dc[i].name, "same-child-names")
		vr.Assert(mc[i].mode == dc[i].mode, "same-child-modes-in-listing")
		mcid, _, merr := mem.GetChild(mid, mc[i].name)
		dcid, _, derr := dbr.GetChild(did, dc[i].name)
		vr.Assert(merr == nil && derr == nil && mcid == mc[i].id && dcid == dc[i].id, "getchild-agrees-with-listing")
		verifSameTree(mem, dbr, mc[i].id, dc[i].id, depth-1)
	}
}

var verifDiffNames = []string{"a", "d", "d/e/g"}

// C05/H2: the memory store and the db store open the same spec-conforming TOC (entry kinds dir / reg with one or
// two chunks / symlink / hardlink - also to a hardlink -, implicit parent directories, repeated directory entries,
// names written with ./ and trailing /, empty-valued xattrs, no per-file digest) and expose the same tree: same
// names, attributes (mode, owner, size, link name, link count, xattrs), and the same chunk for every file offset.
func VerifH_C05_memoryVsDB() {
	// the thorough tier adds valued xattrs and setuid/sticky bits on the first entry (a third entry was tried: 525 k
	// paths in 50 minutes without finishing and without a finding; not registered)
	maxEntries := 2
	n := 1 + vr.Len("entries", maxEntries-1)
	var ents []*estargz.TOCEntry
	var files []string // names of non-directory entries so far (hardlink targets)
	isDir := map[string]bool{}
	offset := int64(100)
	for i := 0; i < n; i++ {
		name := verifDiffNames[vr.Choice("name", len(verifDiffNames))]
		// permission bits and owner are symbolic (small enough that their varint encodings have one length)
		mode := vr.I64("mode")
		vr.Assume(0 <= mode && mode <= 0o177)
		if vr.Tier() > 0 && i == 0 && vr.Bool("setuid+sticky") {
			mode |= 0o5000
		}
		uid := vr.Int("uid")
		vr.Assume(0 <= uid && uid <= 60)
		e := &estargz.TOCEntry{Name: name, Mode: mode, UID: uid, GID: 0}
		kind := vr.Choice("kind", 4)
		if isDir[name] {
			kind = 0
		}
		switch kind {
		case 0:
			e.Type = "dir"
			isDir[name] = true
			if vr.Bool("dirWithSlash") {
				e.Name = "./" + name + "/"
			}
		case 1:
			e.Type = "reg"
			if i >= 2 {
				e.Size = 1 // the third entry (thorough tier) varies in name and kind only
			} else {
				e.Size = int64(vr.Choice("size", 3))
			}
			e.Offset = offset
			offset += 100
			if e.Size >= 2 && vr.Bool("twoChunks") {
				e.ChunkSize = 1
				e.ChunkDigest = "sha256:c0"
				ents = append(ents, e)
				ents = append(ents, &estargz.TOCEntry{Name: name, Type: "chunk", Offset: offset, ChunkOffset: 1, ChunkDigest: "sha256:c1"})
				offset += 100
				e = nil
			} else if e.Size > 0 {
				e.ChunkDigest = "sha256:c0"
			}
		case 2:
			e.Type = "symlink"
			e.LinkName = "target"
		default:
			if len(files) == 0 {
				e.Type = "symlink"
				e.LinkName = "target"
			} else {
				e.Type = "hardlink"
				e.LinkName = files[vr.Choice("linkTarget", len(files))]
			}
		}
		if kind != 0 {
			// a later entry of the same name replaces the earlier one in both stores only if ... (outside: names of
			// non-directories are used once)
			for _, f := range files {
				vr.Assume(f != name)
			}
			files = append(files, name)
		}
		if e != nil {
			nx := 2
			if vr.Tier() > 0 && i == 0 {
				nx = 3
			}
			if i >= 2 {
				nx = 1
			}
			switch vr.Choice("xattrs", nx) {
			case 1:
				e.Xattrs = map[string][]byte{"k": {}}
			case 2:
				e.Xattrs = map[string][]byte{"k": []byte("v")}
			}
			ents = append(ents, e)
		}
	}
	// a directory must not also be a file name's prefix conflict: "d" as a file and "d/f" below it is not a valid tar
	for _, f := range files {
		for _, g := range verifDiffNames {
			if len(g) > len(f) && g[:len(f)+1] == f+"/" {
				for _, e := range ents {
					vr.Assume(cleanEntryName(e.Name) != g)
				}
			}
		}
	}
	sr := io.NewSectionReader(verifZeroAt{}, 0, 10000)
	mem, memErr, dbr, dbErr := verifOpenBoth(ents, sr)
	vr.Assert((memErr == nil) == (dbErr == nil), "both-stores-accept-or-both-reject")
	if memErr != nil || dbErr != nil {
		vr.Reach("rejected")
		return
	}
	verifSameTree(mem, dbr, mem.RootID(), dbr.RootID(), 4)
	vr.Reach("end")
}

type verifZeroAt struct{}

func (verifZeroAt) ReadAt(p []byte, off int64) (int, error) {
	for i := range p {
		p[i] = 0
	}
	return len(p), nil
}

var _ = bolt.ErrBucketNotFound

// C05/H3: every metadata.Reader obtained from the db store - also a Clone taken while the background import of the
// TOC is still running, whichever way the two goroutines are scheduled - answers from the completely imported
// layer, as the memory store (which imports synchronously) does.
func VerifH_C05_cloneSeesWholeLayer() {
	ents := []*estargz.TOCEntry{
		{Name: "d/", Type: "dir", Mode: 0755},
		{Name: "d/a", Type: "reg", Size: 1, Offset: 100, ChunkDigest: "sha256:c0", Mode: 0644},
	}
	sr := io.NewSectionReader(verifZeroAt{}, 0, 10000)
	vb.Install()
	vr.EngineOnlyReplay("bbolt and the streaming JSON decoder are replaced inside the engine; the schedule is the engine's")
	pos := 0
	vr.Replace("github.com/goccy/go-json.NewDecoder", func(r io.Reader) *json.Decoder { return &json.Decoder{} })
	vr.Replace("(*github.com/goccy/go-json.Decoder).Token", func(d *json.Decoder) (json.Token, error) { return json.Delim('['), nil })
	vr.Replace("(*github.com/goccy/go-json.Decoder).More", func(d *json.Decoder) bool { return pos < len(ents) })
	vr.Replace("(*github.com/goccy/go-json.Decoder).Decode", func(d *json.Decoder, v any) error {
		verifJSONDecodeInto(v.(*estargz.TOCEntry), ents[pos])
		pos++
		return nil
	})
	db := vb.M.NewDB()
	r := &reader{db: db, sr: sr, initG: new(errgroup.Group)}
	vr.Assert(r.initRootNode("fs1") == nil, "root-node")
	vr.Interleave(4)
	// as reader.init does: the import runs in the background
	r.initG.Go(func() error { return r.initNodes(nil) })
	var rd metadata.Reader = r
	if vr.Bool("viaClone") {
		c, err := r.Clone(sr)
		vr.Assert(err == nil, "clone")
		rd = c
	}
	did, _, err := rd.GetChild(rd.RootID(), "d")
	vr.Assert(err == nil, "directory-of-the-layer-is-found")
	_, attr, err := rd.GetChild(did, "a")
	vr.Assert(err == nil && attr.Size == 1, "file-of-the-layer-is-found")
	vr.Reach("end")
}

// C05/H4: both stores accept or reject the same TOCs, also ill-formed ones: hardlinks to a missing name, to a
// directory, to themselves, to their own ancestor; a chunk entry with no file before it. When both accept, they expose
// the same tree. (A file name that is also used as a parent directory, and chunk tables that do not fit their file,
// are C04's subject and excluded here.)
func VerifH_C05_acceptRejectAlike() {
	maxEntries := 3
	n := 1 + vr.Len("entries", maxEntries-1)
	var ents []*estargz.TOCEntry
	used := map[string]bool{}
	offset := int64(100)
	forward := false // some hardlink names an entry that comes later in the TOC
	for i := 0; i < n; i++ {
		name := verifDiffNames[vr.Choice("name", len(verifDiffNames))]
		vr.Assume(!used[name]) // duplicates are H2's subject
		e := &estargz.TOCEntry{Name: name, Mode: 0644}
		nk := 3
		if i == 0 {
			nk = 4
		}
		switch vr.Choice("kind", nk) {
		case 0:
			e.Type = "dir"
		case 1:
			e.Type = "reg"
			e.Size = 1
			e.Offset = offset
			e.ChunkDigest = "sha256:c0"
			offset += 100
		case 2:
			e.Type = "hardlink"
			e.LinkName = verifDiffNames[vr.Choice("linkTarget", len(verifDiffNames))]
			if !used[e.LinkName] && e.LinkName != name {
				forward = true // resolved below: only if that name does appear later
			}
		default: // a chunk entry at the very top of the TOC
			e.Type = "chunk"
			e.Offset = offset
			e.ChunkOffset = 0
			e.ChunkSize = 1
			offset += 100
		}
		used[name] = true
		ents = append(ents, e)
	}
	isForward := false
	if forward {
		for i, e := range ents {
			if e.Type != "hardlink" {
				continue
			}
			for _, later := range ents[i+1:] {
				if later.Name == e.LinkName {
					isForward = true
				}
			}
		}
	}
	// a regular file or link must not also be the parent directory of another entry
	for _, f := range ents {
		if f.Type == "dir" {
			continue
		}
		for _, e := range ents {
			vr.Assume(!(len(e.Name) > len(f.Name) && e.Name[:len(f.Name)+1] == f.Name+"/"))
		}
	}
	sr := io.NewSectionReader(verifZeroAt{}, 0, 10000)
	mem, memErr, dbr, dbErr := verifOpenBoth(ents, sr)
	// F-C05-5 (open): a hardlink whose destination is listed later in the TOC is resolved by the memory store (two
	// passes) and refused by the db store (one streaming pass).
	vr.Known("F-C05-5", isForward)
	vr.Assert((memErr == nil) == (dbErr == nil), "both-stores-accept-or-both-reject")
	if memErr != nil || dbErr != nil {
		vr.Reach("rejected")
		return
	}
	verifSameTree(mem, dbr, mem.RootID(), dbr.RootID(), 4)
	vr.Reach("end")
}
