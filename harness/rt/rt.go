// Package zzverifrt is the harness API. Under the symbolic executor every function here is an engine
// intrinsic (the bodies below are never interpreted). Compiled natively the bodies replay a recorded
// counterexample: VERIF_REPLAY names a JSON file holding the values of all nondeterministic inputs in call order.
package zzverifrt

import (
	"encoding/json"
	"fmt"
	"os"
)

type nondetVal struct {
	Tag  string `json:"tag"`
	Kind string `json:"kind"`
	Val  uint64 `json:"val"`
}

type replayFile struct {
	Harness string      `json:"harness"`
	Kind    string      `json:"kind"`
	Tier    int         `json:"tier"`
	Nondets []nondetVal `json:"nondets"`
}

var (
	replay *replayFile
	pos    int
)

// AssumeFailed is panicked natively when a recorded input violates an assumption (replay desync).
type AssumeFailed struct{ msg string }

// AssertFailed is panicked natively when an assertion fails during replay.
type AssertFailed struct{ ID string }

func (a AssertFailed) Error() string { return "VERIF-ASSERT-FAILED " + a.ID }

func load() {
	if replay != nil {
		return
	}
	p := os.Getenv("VERIF_REPLAY")
	if p == "" {
		panic("zzverifrt: VERIF_REPLAY not set (harnesses only run under the symbolic executor or in replay)")
	}
	b, err := os.ReadFile(p)
	if err != nil {
		panic(err)
	}
	replay = &replayFile{}
	if err := json.Unmarshal(b, replay); err != nil {
		panic(err)
	}
}

func next(kind string) uint64 {
	load()
	for pos < len(replay.Nondets) {
		n := replay.Nondets[pos]
		pos++
		if len(n.Tag) > 0 && n.Tag[0] == '~' {
			continue // produced inside an engine-only stub (vr.Replace); the native run executes the real function
		}
		if n.Kind == kind || (kind == "choice" && n.Kind == "choice") {
			return n.Val
		}
		if n.Kind == "choice" && n.Tag == "maporder" || n.Tag == "sched" || n.Tag == "select" || n.Tag == "spawn-order" {
			continue // engine-internal choices have no native counterpart
		}
		panic(fmt.Sprintf("zzverifrt: replay desync: want %s, recorded %s (%s)", kind, n.Kind, n.Tag))
	}
	return 0 // inputs never reached symbolically are unconstrained
}

func I64(tag string) int64  { return int64(next("i64")) }
func U64(tag string) uint64 { return next("u64") }
func I32(tag string) int32  { return int32(next("i32")) }
func U32(tag string) uint32 { return uint32(next("u32")) }
func U16(tag string) uint16 { return uint16(next("u16")) }
func U8(tag string) uint8   { return uint8(next("u8")) }
func Int(tag string) int    { return int(int64(next("int"))) }
func Bool(tag string) bool  { return next("bool") != 0 }
func Len(tag string, max int) int {
	if max <= 0 {
		return 0 // the engine records no decision for a single alternative
	}
	return int(next("choice"))
}
func Choice(tag string, n int) int {
	if n <= 1 {
		return 0
	}
	return int(next("choice"))
}
func Concrete(x int) int { return x }

func Bytes(tag string, n int) []byte {
	b := make([]byte, n)
	for i := range b {
		b[i] = U8(tag)
	}
	return b
}

func Str(tag string, n int) string { return string(Bytes(tag, n)) }

func Assume(c bool) {
	if !c {
		panic(AssumeFailed{"assumption false under replay"})
	}
}

func Assert(c bool, id string) {
	if !c {
		fmt.Println("VERIF-ASSERT-FAILED", id)
		panic(AssertFailed{id})
	}
}

func Reach(id string)         {}
func Known(id string, c bool) {}
func Native() bool            { return true }

// EngineOnlyReplay declares that this harness replaces a dependency that cannot be injected natively (a concrete
// struct method); counterexamples are then confirmed by the engine's re-execution of the recorded path only.
func EngineOnlyReplay(reason string) {}
func Replace(name string, model any) {}
func Stub(name string)               {}
func MapOrders(on bool)              {}
func Interleave(maxSwitches int)     {}
func Log(v any)                      {}
func Unsupported(msg string)         { panic("zzverifrt.Unsupported: " + msg) }
func Timers() int                    { return 0 }
func FireTimer(k int) bool           { return false }
func Hex16(x int64) string           { return fmt.Sprintf("%016x", x) }

// Tier returns 0 for the quick tier and 1 for the thorough tier.
func Tier() int {
	load()
	return replay.Tier
}

// SpawnDeferred(true): goroutines spawned by the code under test do not run until the harness calls RunPending
// (operation-granular interleaving). Natively goroutines are real; Pending is 0 and RunPending waits briefly.
func SpawnDeferred(on bool) {}
func Pending() int          { return 0 }
func RunPending(k int) bool { return false }

// Process runs f; under the engine Crash() kills it without running deferred calls and Process returns true.
// Natively f simply runs to completion (crash points cannot be replayed natively).
func Process(f func()) bool { f(); return false }
func Crash()                {}

// Report prints a value natively ("VERIF-REPORT key=value") and records it under the engine (translator validation).
func Report(key string, v any) {
	switch x := v.(type) {
	case string:
		fmt.Printf("VERIF-REPORT %s=%q\n", key, x)
	case []byte:
		parts := ""
		for i, b := range x {
			if i > 0 {
				parts += " "
			}
			parts += fmt.Sprint(b)
		}
		fmt.Printf("VERIF-REPORT %s=[%s]\n", key, parts)
	case nil:
		fmt.Printf("VERIF-REPORT %s=<nil>\n", key)
	default:
		fmt.Printf("VERIF-REPORT %s=%v\n", key, x)
	}
}

// Symbolize returns s; under the engine the bytes are symbolic variables pinned to s.
func Symbolize(s string) string  { return s }
func SymbolizeI64(x int64) int64 { return x }
