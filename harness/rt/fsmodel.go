package zzverifrt

// File-system model used under the symbolic executor (natively the real os package runs): a tree of named
// directories and files with byte contents. Every mutating call is one atomic step (one crash tick). Open handles
// keep their inode alive after unlink/rename, as on POSIX.

import (
	"errors"
	"io"
	"io/fs"
	"os"
	"path/filepath"
	"strconv"
	"strings"
	"syscall"
	"time"
)

type fsInode struct {
	data []byte
}

type fsHandle struct {
	ino    *fsInode
	name   string
	closed bool
	pos    int
}

type FSModel struct {
	Files   map[string]*fsInode
	Dirs    map[string]bool
	handles map[*os.File]*fsHandle
	tmpSeq  int
	Ticks   int         // number of durable effects so far
	OnTick  func(n int) // crash hook: called before every durable effect
	Trace   []string    // durable effects in order ("mkdir p", "rename a b", ...)
}

var FS *FSModel

func (m *FSModel) tick(what string) {
	m.Ticks++
	m.Trace = append(m.Trace, what)
	if m.OnTick != nil {
		m.OnTick(m.Ticks)
	}
}

func (m *FSModel) notExist(op, p string) error {
	return &fs.PathError{Op: op, Path: p, Err: fs.ErrNotExist}
}

func (m *FSModel) exists(op, p string) error {
	return &fs.PathError{Op: op, Path: p, Err: fs.ErrExist}
}

func (m *FSModel) open(ino *fsInode, name string) *os.File {
	f := &os.File{}
	m.handles[f] = &fsHandle{ino: ino, name: name}
	return f
}

// Snapshot returns a copy of the durable state (what survives a crash: directories and file contents).
func (m *FSModel) Snapshot() *FSModel {
	c := &FSModel{Files: map[string]*fsInode{}, Dirs: map[string]bool{}, handles: map[*os.File]*fsHandle{}, tmpSeq: m.tmpSeq}
	for p, i := range m.Files {
		c.Files[p] = &fsInode{data: append([]byte(nil), i.data...)}
	}
	for d := range m.Dirs {
		c.Dirs[d] = true
	}
	return c
}

// ListDir returns the names directly under dir (files and directories), sorted.
func (m *FSModel) ListDir(dir string) []string {
	var names []string
	seen := map[string]bool{}
	add := func(p string) {
		if filepath.Dir(p) == dir && p != dir {
			b := filepath.Base(p)
			if !seen[b] {
				seen[b] = true
				names = append(names, b)
			}
		}
	}
	for p := range m.Files {
		add(p)
	}
	for p := range m.Dirs {
		add(p)
	}
	for i := 1; i < len(names); i++ {
		for j := i; j > 0 && names[j] < names[j-1]; j-- {
			names[j], names[j-1] = names[j-1], names[j]
		}
	}
	return names
}

// InstallFS replaces the os functions used by the code under test with the model (engine only).
func InstallFS() *FSModel {
	m := &FSModel{Files: map[string]*fsInode{}, Dirs: map[string]bool{"/": true}, handles: map[*os.File]*fsHandle{}}
	FS = m
	Replace("os.MkdirAll", func(p string, perm os.FileMode) error {
		p = filepath.Clean(p)
		if m.Dirs[p] {
			return nil
		}
		m.tick("mkdirall " + p)
		for q := p; q != "/" && q != "."; q = filepath.Dir(q) {
			if _, isFile := m.Files[q]; isFile {
				return &fs.PathError{Op: "mkdir", Path: q, Err: errors.New("not a directory")}
			}
			m.Dirs[q] = true
		}
		return nil
	})
	Replace("os.Mkdir", func(p string, perm os.FileMode) error {
		p = filepath.Clean(p)
		if m.Dirs[p] || m.Files[p] != nil {
			return m.exists("mkdir", p)
		}
		if !m.Dirs[filepath.Dir(p)] {
			return m.notExist("mkdir", p)
		}
		m.tick("mkdir " + p)
		m.Dirs[p] = true
		return nil
	})
	Replace("os.MkdirTemp", func(dir, pattern string) (string, error) {
		dir = filepath.Clean(dir)
		if !m.Dirs[dir] {
			return "", m.notExist("mkdirtemp", dir)
		}
		m.tmpSeq++
		p := filepath.Join(dir, strings.Replace(pattern, "*", "", 1)+strconv.Itoa(m.tmpSeq))
		if !strings.Contains(pattern, "*") {
			p = filepath.Join(dir, pattern+strconv.Itoa(m.tmpSeq))
		}
		m.tick("mkdirtemp " + p)
		m.Dirs[p] = true
		return p, nil
	})
	Replace("os.CreateTemp", func(dir, pattern string) (*os.File, error) {
		dir = filepath.Clean(dir)
		if !m.Dirs[dir] {
			return nil, m.notExist("createtemp", dir)
		}
		m.tmpSeq++
		p := filepath.Join(dir, strings.Replace(pattern, "*", strconv.Itoa(m.tmpSeq), 1))
		m.tick("createtemp " + p)
		ino := &fsInode{}
		m.Files[p] = ino
		return m.open(ino, p), nil
	})
	Replace("os.Open", func(p string) (*os.File, error) {
		p = filepath.Clean(p)
		if ino, ok := m.Files[p]; ok {
			return m.open(ino, p), nil
		}
		if m.Dirs[p] {
			return m.open(nil, p), nil
		}
		return nil, m.notExist("open", p)
	})
	openFile := func(p string, flag int, perm os.FileMode) (*os.File, error) {
		p = filepath.Clean(p)
		ino, ok := m.Files[p]
		if !ok {
			if flag&os.O_CREATE == 0 {
				if m.Dirs[p] {
					return m.open(nil, p), nil
				}
				return nil, m.notExist("open", p)
			}
			if !m.Dirs[filepath.Dir(p)] {
				return nil, m.notExist("open", p)
			}
			m.tick("create " + p)
			ino = &fsInode{}
			m.Files[p] = ino
		} else if flag&os.O_EXCL != 0 && flag&os.O_CREATE != 0 {
			return nil, m.exists("open", p)
		}
		if flag&os.O_TRUNC != 0 && len(ino.data) > 0 {
			m.tick("truncate " + p)
			ino.data = nil
		}
		return m.open(ino, p), nil
	}
	Replace("os.OpenFile", openFile)
	Replace("os.Create", func(p string) (*os.File, error) {
		return openFile(p, os.O_RDWR|os.O_CREATE|os.O_TRUNC, 0666)
	})
	Replace("os.ReadFile", func(p string) ([]byte, error) {
		if ino, ok := m.Files[filepath.Clean(p)]; ok {
			return append([]byte(nil), ino.data...), nil
		}
		return nil, m.notExist("open", p)
	})
	Replace("os.WriteFile", func(p string, data []byte, perm os.FileMode) error {
		f, err := openFile(p, os.O_WRONLY|os.O_CREATE|os.O_TRUNC, perm)
		if err != nil {
			return err
		}
		m.handles[f].ino.data = append([]byte(nil), data...)
		return nil
	})
	Replace("os.Rename", func(oldp, newp string) error {
		oldp, newp = filepath.Clean(oldp), filepath.Clean(newp)
		if ino, ok := m.Files[oldp]; ok {
			if !m.Dirs[filepath.Dir(newp)] {
				return m.notExist("rename", newp)
			}
			m.tick("rename " + oldp + " " + newp)
			delete(m.Files, oldp)
			m.Files[newp] = ino
			return nil
		}
		if m.Dirs[oldp] {
			if !m.Dirs[filepath.Dir(newp)] {
				return m.notExist("rename", newp)
			}
			if m.Dirs[newp] || m.Files[newp] != nil {
				// rename onto an existing non-empty directory fails; keep it simple: existing target = EEXIST
				return m.exists("rename", newp)
			}
			m.tick("rename " + oldp + " " + newp)
			for d := range m.Dirs {
				if d == oldp || strings.HasPrefix(d, oldp+"/") {
					delete(m.Dirs, d)
					m.Dirs[newp+d[len(oldp):]] = true
				}
			}
			for f, ino := range m.Files {
				if strings.HasPrefix(f, oldp+"/") {
					delete(m.Files, f)
					m.Files[newp+f[len(oldp):]] = ino
				}
			}
			return nil
		}
		return m.notExist("rename", oldp)
	})
	Replace("os.Remove", func(p string) error {
		p = filepath.Clean(p)
		if _, ok := m.Files[p]; ok {
			m.tick("remove " + p)
			delete(m.Files, p)
			return nil
		}
		if m.Dirs[p] {
			if len(m.ListDir(p)) > 0 {
				return &fs.PathError{Op: "remove", Path: p, Err: errors.New("directory not empty")}
			}
			m.tick("remove " + p)
			delete(m.Dirs, p)
			return nil
		}
		return m.notExist("remove", p)
	})
	Replace("os.RemoveAll", func(p string) error {
		p = filepath.Clean(p)
		found := false
		for d := range m.Dirs {
			if d == p || strings.HasPrefix(d, p+"/") {
				found = true
			}
		}
		if _, ok := m.Files[p]; ok {
			found = true
		}
		if !found {
			return nil
		}
		m.tick("removeall " + p)
		for d := range m.Dirs {
			if d == p || strings.HasPrefix(d, p+"/") {
				delete(m.Dirs, d)
			}
		}
		for f := range m.Files {
			if f == p || strings.HasPrefix(f, p+"/") {
				delete(m.Files, f)
			}
		}
		return nil
	})
	Replace("os.Stat", func(p string) (os.FileInfo, error) {
		p = filepath.Clean(p)
		if m.Dirs[p] {
			return fsInfo{name: filepath.Base(p), dir: true}, nil
		}
		if ino := m.Files[p]; ino != nil {
			return fsInfo{name: filepath.Base(p), size: int64(len(ino.data))}, nil
		}
		return nil, m.notExist("stat", p)
	})
	Replace("os.Lchown", func(p string, uid, gid int) error { return nil })
	Replace("(*os.File).Write", func(f *os.File, b []byte) (int, error) {
		h := m.handles[f]
		if h == nil || h.closed || h.ino == nil {
			return 0, fs.ErrClosed
		}
		h.ino.data = append(h.ino.data, b...)
		return len(b), nil
	})
	Replace("(*os.File).ReadAt", func(f *os.File, b []byte, off int64) (int, error) {
		h := m.handles[f]
		if h == nil || h.closed || h.ino == nil {
			return 0, fs.ErrClosed
		}
		if off < 0 || off > int64(len(h.ino.data)) {
			return 0, io.EOF
		}
		n := copy(b, h.ino.data[off:])
		if n < len(b) {
			return n, io.EOF
		}
		return n, nil
	})
	Replace("(*os.File).Close", func(f *os.File) error {
		h := m.handles[f]
		if h == nil || h.closed {
			return fs.ErrClosed
		}
		h.closed = true
		return nil
	})
	Replace("(*os.File).Name", func(f *os.File) string {
		if h := m.handles[f]; h != nil {
			return h.name
		}
		return ""
	})
	Replace("(*os.File).Fd", func(f *os.File) uintptr { return 3 })
	Replace("(*os.File).Readdirnames", func(f *os.File, n int) ([]string, error) {
		h := m.handles[f]
		if h == nil || h.closed {
			return nil, fs.ErrClosed
		}
		return m.ListDir(h.name), nil
	})
	return m
}

type fsInfo struct {
	name string
	size int64
	dir  bool
}

func (i fsInfo) Name() string { return i.name }
func (i fsInfo) Size() int64  { return i.size }
func (i fsInfo) Mode() os.FileMode {
	if i.dir {
		return os.ModeDir | 0755
	}
	return 0644
}
func (i fsInfo) ModTime() time.Time { return time.Time{} }
func (i fsInfo) IsDir() bool        { return i.dir }
func (i fsInfo) Sys() any           { return &syscall.Stat_t{} }

// HandleClosed reports whether the model handle behind f was closed (engine only).
func (m *FSModel) HandleClosed(f *os.File) bool {
	h := m.handles[f]
	return h == nil || h.closed
}
