//go:build verif

package estargz

import "io"

// VerifNewReader builds a Reader from an already decoded TOC through the real initFields (for harnesses of other
// modules: the JSON decoding of the TOC is outside their claim).
func VerifNewReader(toc *JTOC, sr *io.SectionReader, d Decompressor) (*Reader, error) {
	r := &Reader{toc: toc, sr: sr, decompressor: d}
	if err := r.initFields(); err != nil {
		return nil, err
	}
	return r, nil
}
