//go:build verif

package memory

import (
	"github.com/containerd/stargz-snapshotter/estargz"
	"github.com/containerd/stargz-snapshotter/metadata"
)

// VerifAttrFromTOCEntry exposes the memory store's TOC entry -> Attr conversion to harnesses of other packages.
func VerifAttrFromTOCEntry(src *estargz.TOCEntry) metadata.Attr {
	var a metadata.Attr
	attrFromTOCEntry(src, &a)
	return a
}
