//go:build verif

package cri

import (
	"context"

	"github.com/containerd/containerd/v2/pkg/reference"
	"google.golang.org/grpc"
	runtime "k8s.io/cri-api/pkg/apis/runtime/v1"

	vr "github.com/containerd/stargz-snapshotter/zzverifrt"
)

// backend CRI image service: every call succeeds
type verifCRI struct{}

func (verifCRI) ListImages(ctx context.Context, in *runtime.ListImagesRequest, opts ...grpc.CallOption) (*runtime.ListImagesResponse, error) {
	return &runtime.ListImagesResponse{}, nil
}
func (verifCRI) ImageStatus(ctx context.Context, in *runtime.ImageStatusRequest, opts ...grpc.CallOption) (*runtime.ImageStatusResponse, error) {
	return &runtime.ImageStatusResponse{}, nil
}
func (verifCRI) PullImage(ctx context.Context, in *runtime.PullImageRequest, opts ...grpc.CallOption) (*runtime.PullImageResponse, error) {
	return &runtime.PullImageResponse{}, nil
}
func (verifCRI) RemoveImage(ctx context.Context, in *runtime.RemoveImageRequest, opts ...grpc.CallOption) (*runtime.RemoveImageResponse, error) {
	return &runtime.RemoveImageResponse{}, nil
}
func (verifCRI) ImageFsInfo(ctx context.Context, in *runtime.ImageFsInfoRequest, opts ...grpc.CallOption) (*runtime.ImageFsInfoResponse, error) {
	return &runtime.ImageFsInfoResponse{}, nil
}

var (
	verifImages = []string{"registry-a.example.com/app:v1", "registry-b.example.com/app:v1"}
	verifHosts  = []string{"registry-a.example.com", "registry-b.example.com", "docker.io"}
	// server addresses a pull request may name, with the host they denote ("" = none / unparsable as a host)
	verifAddrs     = []string{"", "https://registry-a.example.com", "https://registry-b.example.com", "registry-a.example.com", "https://index.docker.io/v1/"}
	verifAddrHosts = []string{"", "registry-a.example.com", "registry-b.example.com", "", "index.docker.io"}
)

type verifPull struct {
	user, pass string
	form       int // 0 user/password, 1 identity token, 2 none
	addr       int
}

// C18/H1: credentials captured from CRI pull requests are offered only for the exact image reference of the most
// recent pull of that reference, never when the request named a server address different from the host being
// contacted, and no longer after the image is removed.
func VerifH_C18_keychainHistory() {
	steps := 2
	if vr.Tier() > 0 {
		steps = 3
	}
	in := &instrumentedService{config: make(map[string]*runtime.AuthConfig), cri: verifCRI{}}
	ctx := context.Background()
	last := map[int]*verifPull{} // image index -> auth of the latest pull not followed by a remove
	for s := 0; s < steps; s++ {
		img := vr.Choice("image", len(verifImages))
		if vr.Bool("remove") {
			_, err := in.RemoveImage(ctx, &runtime.RemoveImageRequest{Image: &runtime.ImageSpec{Image: verifImages[img]}})
			vr.Assert(err == nil, "remove-forwards")
			delete(last, img)
			continue
		}
		p := &verifPull{form: vr.Choice("authform", 3), addr: vr.Choice("serveraddr", len(verifAddrs))}
		auth := &runtime.AuthConfig{ServerAddress: verifAddrs[p.addr]}
		switch p.form {
		case 0:
			p.user, p.pass = "u"+vr.Str("user", 1), "p"+vr.Str("pass", 1)
			auth.Username, auth.Password = p.user, p.pass
		case 1:
			p.pass = "t" + vr.Str("token", 1)
			auth.IdentityToken = p.pass
		}
		_, err := in.PullImage(ctx, &runtime.PullImageRequest{Image: &runtime.ImageSpec{Image: verifImages[img]}, Auth: auth})
		vr.Assert(err == nil, "pull-forwards")
		last[img] = p
	}
	// any host may ask for any reference
	h := vr.Choice("host", len(verifHosts))
	q := vr.Choice("queryimage", len(verifImages)+1)
	qref := "registry-a.example.com/other:v9"
	if q < len(verifImages) {
		qref = verifImages[q]
	}
	spec, err := reference.Parse(qref)
	vr.Assert(err == nil, "query-ref-parses")
	user, secret, cerr := in.credentials(verifHosts[h], spec)
	if cerr == nil && (user != "" || secret != "") {
		p, ok := last[q]
		vr.Assert(q < len(verifImages) && ok, "credentials-only-for-a-pulled-and-not-removed-reference")
		if ok {
			vr.Assert(user == p.user && secret == p.pass, "credentials-are-those-of-the-latest-pull-of-that-reference")
			host := verifHosts[h]
			if host == "docker.io" {
				host = "index.docker.io"
			}
			vr.Assert(verifAddrs[p.addr] == "" || verifAddrHosts[p.addr] == host, "never-for-a-different-server-address")
		}
	}
	vr.Reach("end")
}
