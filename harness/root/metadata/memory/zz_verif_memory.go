//go:build verif

package memory

import (
	"errors"
	"io"
	"os"

	"github.com/containerd/stargz-snapshotter/estargz"
	"github.com/containerd/stargz-snapshotter/metadata"
	digest "github.com/opencontainers/go-digest"

	vr "github.com/containerd/stargz-snapshotter/zzverifrt"
)

// verifTOCDecompressor: hands estargz.Open a TOC of our choosing through the public API (the footer says "TOC is
// external", ParseTOC returns the symbolic TOC). Everything downstream (initFields, assignIDs, lookups) is real.
type verifTOCDecompressor struct{ toc *estargz.JTOC }

var errVerif = errors.New("verif: model error")

func (d *verifTOCDecompressor) Reader(r io.Reader) (io.ReadCloser, error) { return nil, errVerif }
func (d *verifTOCDecompressor) FooterSize() int64                         { return 0 }
func (d *verifTOCDecompressor) ParseFooter(p []byte) (int64, int64, int64, error) {
	return -1, -1, 0, nil
}
func (d *verifTOCDecompressor) ParseTOC(r io.Reader) (*estargz.JTOC, digest.Digest, error) {
	return d.toc, "sha256:toc", nil
}
func (d *verifTOCDecompressor) DecompressTOC(r io.Reader) (io.ReadCloser, error) {
	return nil, errVerif
}

type verifZeros struct{}

func (verifZeros) ReadAt(p []byte, off int64) (int, error) {
	for i := range p {
		p[i] = 0
	}
	return len(p), nil
}

var verifNames = []string{"a", "d", "d/a", "d/l"}

func verifNameCount() int {
	return len(verifNames)
}

func verifEntry() *estargz.TOCEntry {
	e := &estargz.TOCEntry{}
	switch vr.Choice("type", 5) {
	case 0:
		e.Type, e.Name = "reg", verifNames[vr.Choice("name", verifNameCount())]
		e.Size, e.ChunkSize, e.ChunkOffset, e.Offset = vr.I64("size"), vr.I64("chunksize"), vr.I64("chunkoffset"), vr.I64("offset")
	case 1:
		e.Type = "chunk"
		e.ChunkSize, e.ChunkOffset, e.Offset = vr.I64("chunksize"), vr.I64("chunkoffset"), vr.I64("offset")
	case 2:
		e.Type, e.Name = "dir", verifNames[vr.Choice("name", verifNameCount())]+"/"
	case 3:
		e.Type, e.Name = "hardlink", verifNames[vr.Choice("name", verifNameCount())]
		e.LinkName = verifNames[vr.Choice("link", verifNameCount())]
	default:
		e.Type, e.Name, e.LinkName = "symlink", verifNames[vr.Choice("name", verifNameCount())], "x"
	}
	return e
}

// C04/H3b: opening a layer whose TOC has adversarial structure through the memory metadata store, then walking,
// stat-ing and opening everything: errors are fine, panics, unbounded recursion and endless loops are not.
func VerifH_C04_memoryStoreWalk() {
	k := 2 // three entries: 45 minutes for the estargz-level twin of this harness (C04_tocStructure, thorough); not repeated here
	toc := &estargz.JTOC{Version: 1}
	for i := 0; i < k; i++ {
		toc.Entries = append(toc.Entries, verifEntry())
	}
	sr := io.NewSectionReader(verifZeros{}, 0, 1000)
	r, err := NewReader(sr, metadata.WithDecompressors(&verifTOCDecompressor{toc: toc}))
	if err != nil {
		vr.Reach("rejected")
		return
	}
	// bounded walk (the tree has at most 3 levels for these names)
	var walk func(id uint32, depth int)
	walk = func(id uint32, depth int) {
		if depth > 4 {
			return
		}
		_, _ = r.GetAttr(id)
		_, _ = r.GetOffset(id)
		r.ForeachChild(id, func(name string, cid uint32, mode os.FileMode) bool {
			_, _, _ = r.GetChild(id, name)
			if mode.IsDir() {
				walk(cid, depth+1)
			} else if mode.IsRegular() {
				if f, err := r.OpenFile(cid); err == nil {
					_, _, _, _ = f.ChunkEntryForOffset(vr.I64("probe"))
				}
			}
			return true
		})
	}
	walk(r.RootID(), 0)
	vr.Reach("end")
}
