//go:build verif

package layer

import (
	"context"
	"errors"
	"io"
	"os"
	"time"

	"github.com/containerd/containerd/v2/pkg/reference"
	"github.com/containerd/stargz-snapshotter/cache"
	"github.com/containerd/stargz-snapshotter/fs/config"
	"github.com/containerd/stargz-snapshotter/fs/remote"
	"github.com/containerd/stargz-snapshotter/fs/source"
	"github.com/containerd/stargz-snapshotter/metadata"
	"github.com/containerd/stargz-snapshotter/task"
	digest "github.com/opencontainers/go-digest"
	ocispec "github.com/opencontainers/image-spec/specs-go/v1"

	vr "github.com/containerd/stargz-snapshotter/zzverifrt"
)

// verifRBlob: a resolved remote blob; its connectivity check fails once it is marked broken.
type verifRBlob struct {
	broken bool
	closed int
	cache  cache.BlobCache
}

func (b *verifRBlob) Check() error {
	if b.closed > 0 {
		return errors.New("verif: blob closed")
	}
	if b.broken {
		return errors.New("verif: registry unreachable")
	}
	return nil
}
func (b *verifRBlob) Size() int64        { return 100 }
func (b *verifRBlob) FetchedSize() int64 { return 0 }
func (b *verifRBlob) ReadAt(p []byte, offset int64, opts ...remote.Option) (int, error) {
	if b.closed > 0 {
		return 0, errors.New("verif: blob closed")
	}
	return 0, io.EOF
}
func (b *verifRBlob) Cache(offset int64, size int64, opts ...remote.Option) error { return nil }
func (b *verifRBlob) Refresh(ctx context.Context, host source.RegistryHosts, refspec reference.Spec, desc ocispec.Descriptor) error {
	return nil
}
func (b *verifRBlob) Close() error {
	b.closed++
	return b.cache.Close() // as remote.blob.Close does
}

// verifRMeta: metadata reader with a close counter
type verifRMeta struct {
	verifMeta
	closed int
}

func (m *verifRMeta) Close() error { m.closed++; return nil }
func (m *verifRMeta) Clone(sr *io.SectionReader) (metadata.Reader, error) {
	return m, nil
}

type verifHandle struct {
	l        Layer
	inst     *layer
	name     int
	released bool
}

// C12: histories of Resolve / Done / Close / TTL expiry / failing connectivity checks over two layers.
func VerifH_C12_resolverHistory() {
	steps := 4
	if vr.Tier() > 0 {
		steps = 5
	}
	fsm := vr.InstallFS()
	vr.Stub("golang.org/x/sys/unix.Fadvise")
	vr.EngineOnlyReplay("remote.Resolver is a concrete struct replaced by a model inside the engine; timers fire when the harness says so")
	var blobs []*verifRBlob
	var metas []*verifRMeta
	faults := 1
	vr.Replace("(*github.com/containerd/stargz-snapshotter/fs/remote.Resolver).Resolve", func(r *remote.Resolver, ctx context.Context, hosts source.RegistryHosts, refspec reference.Spec, desc ocispec.Descriptor, blobCache cache.BlobCache) (remote.Blob, error) {
		if faults > 0 && vr.Bool("resolveFails") {
			faults--
			return nil, errors.New("verif: registry error during resolution")
		}
		b := &verifRBlob{cache: blobCache}
		blobs = append(blobs, b)
		return b, nil
	})
	store := func(sr *io.SectionReader, opts ...metadata.Option) (metadata.Reader, error) {
		if faults > 0 && vr.Bool("openFails") {
			faults--
			return nil, errors.New("verif: cannot open layer")
		}
		m := &verifRMeta{verifMeta: verifMeta{root: 1, dir: 1}}
		metas = append(metas, m)
		return m, nil
	}
	tm := task.NewBackgroundTaskManager(2, time.Second)
	r, err := NewResolver("/stargz", tm, config.Config{}, nil, store, OverlayOpaqueAll, nil)
	vr.Assert(err == nil, "resolver-created")
	ref, _ := reference.Parse("docker.io/library/a:1")
	descs := []ocispec.Descriptor{
		{Digest: digest.Digest("sha256:aaaaaaaaaaaaaaaaaaaaaaaaaaaaaaaaaaaaaaaaaaaaaaaaaaaaaaaaaaaaaaaa")},
		{Digest: digest.Digest("sha256:bbbbbbbbbbbbbbbbbbbbbbbbbbbbbbbbbbbbbbbbbbbbbbbbbbbbbbbbbbbbbbbb")},
	}
	ctx := context.Background()
	var handles []*verifHandle
	var insts []*layer
	check := func() {
		for _, h := range handles {
			if !h.released {
				vr.Assert(!h.inst.isClosed(), "held-layer-is-never-closed")
				vr.Assert(h.inst.blob.Blob.(*verifRBlob).closed == 0, "held-layer-keeps-its-blob-open")
				_, rerr := h.l.ReadAt(make([]byte, 1), 0)
				vr.Assert(rerr == io.EOF, "held-layer-keeps-serving-reads")
			}
		}
	}
	for s := 0; s < steps; s++ {
		switch vr.Choice("op", 5) {
		case 0: // Resolve
			k := vr.Choice("layer", 2)
			l, err := r.Resolve(ctx, nil, ref, descs[k])
			if err == nil {
				inst := l.(*layerRef).layer
				// concurrent users of one healthy layer share a single instance
				for _, h := range handles {
					if !h.released && h.name == k && h.inst.Check() == nil && !h.inst.isClosed() {
						_ = h
					}
				}
				fresh := true
				for _, i := range insts {
					if i == inst {
						fresh = false
					}
				}
				if fresh {
					insts = append(insts, inst)
				}
				vr.Assert(l.Check() == nil, "resolved-layer-works")
				handles = append(handles, &verifHandle{l: l, inst: inst, name: k})
			}
		case 1: // Done
			if n := len(handles); n > 0 {
				h := handles[vr.Choice("handle", n)]
				h.released = true
				h.l.Done()
			}
		case 2: // Close (evicting release)
			if n := len(handles); n > 0 {
				h := handles[vr.Choice("handle", n)]
				h.released = true
				h.l.(*layerRef).Close()
			}
		case 3: // a TTL timer (layer or blob entry) expires
			if n := vr.Timers(); n > 0 {
				vr.FireTimer(vr.Choice("timer", n))
			}
		default: // the registry behind some resolved blob becomes unreachable
			if n := len(blobs); n > 0 {
				blobs[vr.Choice("blob", n)].broken = true
			}
		}
		check()
	}
	// drain: release every handle, let every entry expire: all resources must be given back exactly once
	for _, h := range handles {
		if !h.released {
			h.released = true
			h.l.Done()
		}
	}
	for vr.Timers() > 0 {
		vr.FireTimer(0)
	}
	for _, i := range insts {
		vr.Assert(i.isClosed(), "released-and-expired-layer-is-closed")
	}
	for _, b := range blobs {
		vr.Assert(b.closed == 1, "blob-closed-exactly-once")
	}
	for _, m := range metas {
		vr.Assert(m.closed >= 1, "metadata-reader-closed")
	}
	vr.Assert(len(fsm.ListDir("/stargz/fscache")) == 0 && len(fsm.ListDir("/stargz/httpcache")) == 0, "cache-directories-are-gone")
	// a later request resolves afresh and works
	faults = 0
	l, err := r.Resolve(ctx, nil, ref, descs[0])
	vr.Assert(err == nil && l.Check() == nil, "later-request-resolves-afresh-and-works")
	_ = os.ModeDir
	vr.Reach("end")
}
