//go:build verif

package layer

import (
	"time"

	"github.com/containerd/stargz-snapshotter/cache"
	"github.com/containerd/stargz-snapshotter/estargz"
	"github.com/containerd/stargz-snapshotter/fs/config"
	"github.com/containerd/stargz-snapshotter/fs/reader"
	"github.com/containerd/stargz-snapshotter/fs/remote"
	"github.com/containerd/stargz-snapshotter/task"
	ocispec "github.com/opencontainers/image-spec/specs-go/v1"

	vr "github.com/containerd/stargz-snapshotter/zzverifrt"
)

type verifPBlob struct {
	verifRBlob
	size      int64
	cacheFrom []int64
	cacheSize []int64
	fail      bool
}

func (b *verifPBlob) Size() int64 { return b.size }
func (b *verifPBlob) Cache(offset int64, size int64, opts ...remote.Option) error {
	b.cacheFrom = append(b.cacheFrom, offset)
	b.cacheSize = append(b.cacheSize, size)
	if b.fail {
		return errVerifNotFound
	}
	return nil
}

// C15/H1: the range handed to the blob prefetch: [0, offset(landmark)) with a prefetch landmark, nothing with a
// no-prefetch landmark, min(configured size, blob size) without landmarks; and waiting for prefetch never blocks:
// it returns at once after prefetch ended or failed, and on the timeout otherwise.
func VerifH_C15_prefetchRangeAndWaiter() {
	blobSize := vr.I64("blobsize")
	vr.Assume(0 <= blobSize && blobSize < 1<<40)
	b := &verifPBlob{size: blobSize, fail: vr.Bool("registryFails")}
	b.cache = cache.NewMemoryCache()
	m := &verifMeta{root: 1, dir: 1, offsets: map[uint32]int64{}}
	landmark := vr.Choice("landmark", 3) // 0 none, 1 prefetch landmark, 2 no-prefetch landmark
	lmOff := vr.I64("landmarkOffset")
	vr.Assume(0 <= lmOff && lmOff <= blobSize)
	switch landmark {
	case 1:
		m.children = append(m.children, verifChild{name: estargz.PrefetchLandmark, id: 10, mode: 0644})
		m.offsets[10] = lmOff
	case 2:
		m.children = append(m.children, verifChild{name: estargz.NoPrefetchLandmark, id: 11, mode: 0644})
	}
	vrd, err := reader.NewReader(m, cache.NewMemoryCache(), "sha256:layer")
	vr.Assert(err == nil, "reader")
	asyncSize := vr.I64("asyncThreshold")
	vr.Assume(0 <= asyncSize && asyncSize < 1<<40)
	res := &Resolver{config: config.Config{PrefetchAsyncSize: asyncSize}, prefetchTimeout: 10 * time.Second,
		backgroundTaskManager: task.NewBackgroundTaskManager(2, time.Second)}
	l := newLayer(res, ocispec.Descriptor{Digest: "sha256:layer"}, &blobRef{Blob: b, done: func(bool) {}}, vrd, passThroughConfig{}, false)
	want := vr.I64("configuredPrefetchSize")
	vr.Assume(0 <= want && want < 1<<40)

	waitFirst := vr.Bool("waitBeforePrefetch")
	if waitFirst {
		// nobody ever prefetches: the wait must end with the timeout, not block forever
		werr := l.WaitForPrefetchCompletion()
		vr.Assert(werr != nil, "wait-without-prefetch-ends-with-the-timeout")
	}
	perr := l.Prefetch(want)
	switch landmark {
	case 2:
		vr.Assert(len(b.cacheFrom) == 0 && perr == nil, "no-prefetch-landmark-means-no-traffic")
	case 1:
		vr.Assert(len(b.cacheFrom) == 1 && b.cacheFrom[0] == 0 && b.cacheSize[0] == lmOff, "prefetch-range-ends-at-the-landmark")
	default:
		exp := want
		if exp > blobSize {
			exp = blobSize
		}
		vr.Assert(len(b.cacheFrom) == 1 && b.cacheFrom[0] == 0 && b.cacheSize[0] == exp, "prefetch-size-capped-at-the-blob-size")
	}
	if b.fail && landmark != 2 {
		vr.Assert(perr != nil, "prefetch-reports-the-registry-failure")
	}
	// prefetch has ended (or failed): waiting returns at once, without the timeout
	werr := l.WaitForPrefetchCompletion()
	vr.Assert(werr == nil, "wait-returns-once-prefetch-ended-or-failed")
	vr.Reach("end")
}
