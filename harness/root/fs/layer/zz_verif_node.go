//go:build verif

package layer

import (
	"context"
	"errors"
	"io"
	"os"
	"syscall"
	"time"

	"github.com/containerd/containerd/v2/pkg/reference"
	"github.com/containerd/stargz-snapshotter/estargz"
	"github.com/containerd/stargz-snapshotter/fs/remote"
	"github.com/containerd/stargz-snapshotter/fs/source"
	"github.com/containerd/stargz-snapshotter/metadata"
	fusefs "github.com/hanwen/go-fuse/v2/fs"
	"github.com/hanwen/go-fuse/v2/fuse"
	digest "github.com/opencontainers/go-digest"
	ocispec "github.com/opencontainers/image-spec/specs-go/v1"

	vr "github.com/containerd/stargz-snapshotter/zzverifrt"
)

// ---- models ------------------------------------------------------------------------------------------------

type verifChild struct {
	name string
	id   uint32
	mode os.FileMode
}

// verifMeta: a metadata.Reader exposing one directory (id dirID) with the given children.
type verifMeta struct {
	root     uint32
	dir      uint32
	children []verifChild
	offsets  map[uint32]int64
}

var errVerifNotFound = errors.New("verif: not found")

func (m *verifMeta) RootID() uint32           { return m.root }
func (m *verifMeta) TOCDigest() digest.Digest { return "sha256:toc" }
func (m *verifMeta) GetOffset(id uint32) (int64, error) {
	return m.offsets[id], nil
}
func (m *verifMeta) GetAttr(id uint32) (metadata.Attr, error) {
	if id == m.dir || id == m.root {
		return metadata.Attr{Mode: os.ModeDir | 0755}, nil
	}
	for _, c := range m.children {
		if c.id == id {
			return metadata.Attr{Mode: c.mode}, nil
		}
	}
	return metadata.Attr{}, errVerifNotFound
}
func (m *verifMeta) GetChild(pid uint32, base string) (uint32, metadata.Attr, error) {
	if pid == m.dir {
		for _, c := range m.children {
			if c.name == base {
				return c.id, metadata.Attr{Mode: c.mode}, nil
			}
		}
	}
	return 0, metadata.Attr{}, errVerifNotFound
}
func (m *verifMeta) ForeachChild(id uint32, f func(name string, id uint32, mode os.FileMode) bool) error {
	if id != m.dir {
		return nil
	}
	for _, c := range m.children {
		if !f(c.name, c.id, c.mode) {
			break
		}
	}
	return nil
}
func (m *verifMeta) OpenFile(id uint32) (metadata.File, error) { return nil, errVerifNotFound }
func (m *verifMeta) OpenFileWithPreReader(id uint32, preRead func(id uint32, chunkOffset, chunkSize int64, chunkDigest string, r io.Reader) error) (metadata.File, error) {
	return nil, errVerifNotFound
}
func (m *verifMeta) Clone(sr *io.SectionReader) (metadata.Reader, error) { return m, nil }
func (m *verifMeta) Close() error                                        { return nil }

type verifReader struct{ m *verifMeta }

func (r *verifReader) OpenFile(id uint32) (io.ReaderAt, error) { return nil, errVerifNotFound }
func (r *verifReader) Metadata() metadata.Reader               { return r.m }
func (r *verifReader) Close() error                            { return nil }
func (r *verifReader) LastOnDemandReadTime() time.Time         { return time.Time{} }

type verifBlob struct{}

func (verifBlob) Check() error       { return nil }
func (verifBlob) Size() int64        { return 100 }
func (verifBlob) FetchedSize() int64 { return 10 }
func (verifBlob) ReadAt(p []byte, offset int64, opts ...remote.Option) (int, error) {
	return 0, io.EOF
}
func (verifBlob) Cache(offset int64, size int64, opts ...remote.Option) error { return nil }
func (verifBlob) Refresh(ctx context.Context, host source.RegistryHosts, refspec reference.Spec, desc ocispec.Descriptor) error {
	return nil
}
func (verifBlob) Close() error { return nil }

// go-fuse is outside the claim: NewInode hands back a fresh inode, GetChild finds no in-memory child.
func verifStubGoFuse() {
	vr.Replace("(*github.com/hanwen/go-fuse/v2/fs.Inode).NewInode", func(n *fusefs.Inode, ctx context.Context, ops fusefs.InodeEmbedder, id fusefs.StableAttr) *fusefs.Inode {
		return &fusefs.Inode{}
	})
	vr.Replace("(*github.com/hanwen/go-fuse/v2/fs.Inode).GetChild", func(n *fusefs.Inode, name string) *fusefs.Inode {
		return nil
	})
}

func verifLetter(tag string) string {
	s := vr.Str(tag, 1)
	vr.Assume(s[0]-'a' <= 1) // 'a' or 'b': lets whiteout targets and real entries coincide
	return s
}

// verifChildName: the shapes of names an OCI layer directory can hold.
func verifChildName(thorough bool) string {
	k := 6
	if thorough {
		k = 7
	}
	switch vr.Choice("nameshape", k) {
	case 0:
		return verifLetter("n")
	case 1:
		return whiteoutPrefix + verifLetter("w")
	case 2:
		return whiteoutOpaqueDir
	case 3:
		return estargz.PrefetchLandmark
	case 4:
		return estargz.NoPrefetchLandmark
	case 5:
		return whiteoutPrefix + whiteoutPrefix + verifLetter("ww") // a whiteout whose target is itself a .wh. name
	default:
		return stateDirName
	}
}

var verifCandidates = []string{"a", "b", whiteoutPrefix + "a", whiteoutPrefix + "b", whiteoutOpaqueDir,
	estargz.PrefetchLandmark, estargz.NoPrefetchLandmark}

// reference model of the overlayfs translation of one directory (OCI image-spec layer rules + overlayfs):
// a name is visible iff it is a regular (non-marker) child, or a whiteout of it is present and no regular child has
// that name; markers (.wh.*), and the prefetch landmarks in the root, are never visible.
func verifVisible(children []verifChild, isRoot bool, x string) (visible bool, asWhiteout bool) {
	if len(x) >= len(whiteoutPrefix) && x[:len(whiteoutPrefix)] == whiteoutPrefix {
		return false, false
	}
	if isRoot && (x == estargz.PrefetchLandmark || x == estargz.NoPrefetchLandmark) {
		return false, false
	}
	normal, wh := false, false
	for _, c := range children {
		if c.name == x {
			normal = true
		}
		if c.name == whiteoutPrefix+x {
			wh = true
		}
	}
	if normal {
		return true, false
	}
	return wh, wh
}

// C07/H1: listing and lookup of one directory agree with each other and with the overlayfs translation rule.
func VerifH_C07_readdirLookupAgree() {
	thorough := vr.Tier() > 0
	maxChildren := 2
	if thorough {
		maxChildren = 3
	}
	verifStubGoFuse()
	isRoot := vr.Bool("isRoot")
	m := &verifMeta{root: 1, dir: 5}
	if isRoot {
		m.dir = 1
	}
	nc := vr.Len("children", maxChildren)
	for i := 0; i < nc; i++ {
		c := verifChild{name: verifChildName(thorough), id: uint32(10 + i), mode: 0644}
		if vr.Bool("isDir") {
			c.mode = os.ModeDir | 0755
		}
		for _, o := range m.children {
			vr.Assume(o.name != c.name) // names are unique within a directory
		}
		m.children = append(m.children, c)
	}
	ffs := &fs{r: &verifReader{m: m}, layerDigest: "sha256:layer", baseInode: 3, rootID: 1, opaqueXattrs: opaqueXattrs[OverlayOpaqueAll]}
	ffs.s = ffs.newState("sha256:layer", verifBlob{})
	n := &node{id: m.dir, fs: ffs, attr: metadata.Attr{Mode: os.ModeDir | 0755}}
	if vr.Native() {
		// native replay: a real (unmounted) go-fuse inode tree instead of the engine-side stubs
		fusefs.NewNodeFS(n, &fusefs.Options{})
	}

	probe := verifCandidates[vr.Choice("probe", len(verifCandidates))]
	lookupFirst := vr.Bool("lookupFirst")
	var out fuse.EntryOut
	var lookupErr syscall.Errno
	if lookupFirst {
		_, lookupErr = n.Lookup(context.Background(), probe, &out)
	}
	ents, errno := n.readdir()
	vr.Assert(errno == 0, "readdir-succeeds")
	if !lookupFirst {
		_, lookupErr = n.Lookup(context.Background(), probe, &out)
	}
	// listing == reference
	listed, listedMode, listedIno, dots := false, uint32(0), uint64(0), 0
	for _, e := range ents {
		if e.Name == "." || e.Name == ".." {
			dots++
			continue
		}
		if e.Name == probe {
			vr.Assert(!listed, "name-listed-at-most-once")
			listed, listedMode, listedIno = true, e.Mode, e.Ino
		}
		v, _ := verifVisible(m.children, isRoot, e.Name)
		vr.Assert(v, "only-visible-names-are-listed")
	}
	vr.Assert(dots == 2, "dot-entries-present")
	wantVisible, asWh := verifVisible(m.children, isRoot, probe)
	vr.Assert(listed == wantVisible, "listing-equals-overlayfs-translation")
	if listed && asWh {
		vr.Assert(listedMode == syscall.S_IFCHR, "whiteout-listed-as-char-device")
	}
	// lookup agrees with the listing
	vr.Assert((lookupErr == 0) == listed, "lookup-succeeds-iff-listed")
	if lookupErr == 0 {
		vr.Assert(out.Attr.Ino == listedIno, "same-inode-in-listing-and-lookup")
		if asWh {
			vr.Assert(out.Attr.Mode == syscall.S_IFCHR && out.Attr.Rdev == 0 && out.Attr.Size == 0, "whiteout-is-0/0-char-device")
		}
	}
	vr.Reach("end")
}

// C07/H2: inode numbering: distinct ids give distinct inode numbers, never the reserved ones, full 32-bit range.
func VerifH_C07_inodeNumbering() {
	ffs := &fs{baseInode: vr.U32("base")}
	a, b := vr.U32("id1"), vr.U32("id2")
	ia, ea := ffs.inodeOfID(a)
	ib, eb := ffs.inodeOfID(b)
	vr.Assert((ea != nil) == (a > ^uint32(0)-3), "ids-rejected-exactly-when-they-would-wrap")
	if ea == nil && eb == nil {
		vr.Assert((ia == ib) == (a == b), "inode-numbers-injective")
		vr.Assert(ia != ffs.inodeOfState() && ia != ffs.inodeOfStatFile(), "never-the-reserved-state-inodes")
		vr.Assert(uint32(ia) != 0 && ia>>32 == uint64(ffs.baseInode), "low-word-nonzero-high-word-is-base")
	}
	vr.Reach("end")
}

// C07/H3: opaque marker <-> overlay opaque xattr, for the three configured flavours.
func VerifH_C07_opaqueXattr() {
	verifStubGoFuse()
	m := &verifMeta{root: 1, dir: 5}
	hasMarker := vr.Bool("hasOpaqueMarker")
	if hasMarker {
		m.children = append(m.children, verifChild{name: whiteoutOpaqueDir, id: 10, mode: 0644})
	}
	typ := OverlayOpaqueType(vr.Choice("opaqueType", 3))
	ffs := &fs{r: &verifReader{m: m}, layerDigest: "sha256:layer", baseInode: 3, rootID: 1, opaqueXattrs: opaqueXattrs[typ]}
	ffs.s = ffs.newState("sha256:layer", verifBlob{})
	n := &node{id: m.dir, fs: ffs, attr: metadata.Attr{Mode: os.ModeDir | 0755}}
	names := []string{"trusted.overlay.opaque", "user.overlay.opaque"}
	configured := []bool{typ == OverlayOpaqueAll || typ == OverlayOpaqueTrusted, typ == OverlayOpaqueAll || typ == OverlayOpaqueUser}
	k := vr.Choice("xattr", 2)
	dest := make([]byte, vr.Len("destlen", 2))
	sz, errno := n.Getxattr(context.Background(), names[k], dest)
	if hasMarker && configured[k] {
		if len(dest) < 1 {
			vr.Assert(errno == syscall.ERANGE && sz == 1, "erange-protocol")
		} else {
			vr.Assert(errno == 0 && sz == 1 && dest[0] == 'y', "opaque-xattr-reads-y")
		}
	} else {
		vr.Assert(errno == syscall.ENODATA, "opaque-xattr-not-synthesised")
	}
	buf := make([]byte, 64)
	lsz, lerr := n.Listxattr(context.Background(), buf)
	vr.Assert(lerr == 0, "listxattr-succeeds")
	listed := string(buf[:lsz])
	for j := range names {
		want := hasMarker && configured[j]
		found := false
		for s := 0; s+len(names[j])+1 <= len(listed); s++ {
			if listed[s:s+len(names[j])+1] == names[j]+"\x00" && (s == 0 || listed[s-1] == 0) {
				found = true
			}
		}
		vr.Assert(found == want, "opaque-xattr-listed-iff-marker-and-configured")
	}
	vr.Reach("end")
}
