//go:build verif

package layer

import (
	"syscall"

	"github.com/containerd/stargz-snapshotter/estargz"
	"github.com/containerd/stargz-snapshotter/metadata/memory"
	"github.com/hanwen/go-fuse/v2/fuse"

	vr "github.com/containerd/stargz-snapshotter/zzverifrt"
)

// C02/H4: the attribute chain tar header -> TOC entry -> metadata.Attr (memory store's attrFromTOCEntry, real
// TOCEntry.Stat().Mode() through archive/tar's FileInfo) -> FUSE attributes (real entryToAttr /
// fileModeToSystemMode / unix.Mkdev) against what extracting the tar entry would give, for every 64-bit tar mode
// word, every size, owner, device number and entry type.
func VerifH_C02_attrChain() {
	types := []string{"reg", "dir", "symlink", "char", "block", "fifo"}
	want := []uint32{syscall.S_IFREG, syscall.S_IFDIR, syscall.S_IFLNK, syscall.S_IFCHR, syscall.S_IFBLK, syscall.S_IFIFO}
	k := vr.Choice("type", len(types))
	e := &estargz.TOCEntry{Name: "f", Type: types[k]}
	e.Mode = vr.I64("tarMode")
	// the tar mode word: permission bits, setuid/setgid/sticky (04000/02000/01000); anything above is ignored
	vr.Assume(e.Mode >= 0)
	e.UID, e.GID = vr.Int("uid"), vr.Int("gid")
	vr.Assume(0 <= e.UID && e.UID <= 0xffffffff)
	vr.Assume(0 <= e.GID && e.GID <= 0xffffffff)
	e.NumLink = vr.Int("nlink")
	vr.Assume(0 <= e.NumLink && e.NumLink <= 0xffffffff)
	switch types[k] {
	case "reg":
		e.Size = vr.I64("size")
		vr.Assume(e.Size >= 0)
	case "symlink":
		e.LinkName = []string{"", "t", "some/target"}[vr.Choice("linkname", 3)]
	case "char", "block":
		e.DevMajor, e.DevMinor = vr.Int("major"), vr.Int("minor")
		// what the 32-bit rdev of the FUSE protocol can carry
		vr.Assume(0 <= e.DevMajor && e.DevMajor < 1<<12)
		vr.Assume(0 <= e.DevMinor && e.DevMinor < 1<<20)
	}
	attr := memory.VerifAttrFromTOCEntry(e)
	var out fuse.Attr
	st := entryToAttr(7, attr, &out)

	m := uint32(e.Mode)
	exp := want[k] | m&0o777
	if m&0o4000 != 0 {
		exp |= syscall.S_ISUID
	}
	if m&0o2000 != 0 {
		exp |= syscall.S_ISGID
	}
	if m&0o1000 != 0 {
		exp |= syscall.S_ISVTX
	}
	vr.Assert(out.Mode == exp, "mode-is-type-permissions-and-special-bits-of-the-tar-entry")
	vr.Assert(st.Mode == out.Mode && st.Ino == 7 && out.Ino == 7, "stable-attr-agrees")
	vr.Assert(out.Owner.Uid == uint32(e.UID) && out.Owner.Gid == uint32(e.GID), "owner-unchanged")
	size := uint64(0)
	switch types[k] {
	case "reg":
		size = uint64(e.Size)
	case "symlink":
		size = uint64(len(e.LinkName))
	}
	vr.Assert(out.Size == size, "size-is-the-file-size-or-link-length")
	// st_blocks counts 512-byte units of whole 4096-byte blocks
	vr.Assert(out.Blksize == 4096, "blksize")
	vr.Assert(out.Blocks%8 == 0 && out.Blocks*512 >= size && (size == 0 || out.Blocks*512-size < 4096), "blocks-cover-the-size-in-whole-blocks")
	if types[k] == "char" || types[k] == "block" {
		maj, min := uint32(e.DevMajor), uint32(e.DevMinor)
		vr.Assert(out.Rdev == min&0xff|maj<<8|(min&^0xff)<<12, "rdev-encodes-major-and-minor")
	} else {
		vr.Assert(out.Rdev == 0, "no-device-number")
	}
	if e.NumLink == 0 {
		vr.Assert(out.Nlink == 1, "link-count-zero-means-one")
	} else {
		vr.Assert(out.Nlink == uint32(e.NumLink), "link-count-unchanged")
	}
	vr.Reach("end")
}
