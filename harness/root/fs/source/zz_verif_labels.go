//go:build verif

package source

import (
	"context"
	"strconv"
	"strings"

	"github.com/containerd/containerd/v2/core/images"
	"github.com/containerd/containerd/v2/pkg/labels"
	"github.com/containerd/stargz-snapshotter/fs/config"
	digest "github.com/opencontainers/go-digest"
	ocispec "github.com/opencontainers/image-spec/specs-go/v1"

	vr "github.com/containerd/stargz-snapshotter/zzverifrt"
)

var verifDigests = []digest.Digest{
	"sha256:1111111111111111111111111111111111111111111111111111111111111111",
	"sha256:2222222222222222222222222222222222222222222222222222222222222222",
	"sha256:3333333333333333333333333333333333333333333333333333333333333333",
	"sha256:4444444444444444444444444444444444444444444444444444444444444444",
}

const verifRef = "docker.io/library/alpine:latest"

// verifURL: a URL of one of a few lengths (short ones, and long ones that make a URL list hit the 4096-byte label
// limit) whose bytes are symbolic lower-case letters (stated assumption: URLs contain no ',').
func verifURL() string {
	n := []int{1, 3, 2030}[vr.Choice("urllen", 3)]
	if n > 3 {
		// long URL: symbolic first and last byte, constant middle (keeps the terms small)
		a, b := vr.Str("url", 1), vr.Str("url", 1)
		vr.Assume(a[0]-'a' <= 25)
		vr.Assume(b[0]-'a' <= 25)
		return a + strings.Repeat("x", n-2) + b
	}
	u := vr.Str("url", n)
	for i := 0; i < len(u); i++ {
		vr.Assume(u[i]-'a' <= 25) // single comparison: no short-circuit fork
	}
	return u
}

func verifManifest(maxLayers, maxURLs int) []ocispec.Descriptor {
	children := []ocispec.Descriptor{{MediaType: ocispec.MediaTypeImageConfig, Digest: verifDigests[3]}}
	nl := 1 + vr.Len("layers", maxLayers-1)
	for i := 0; i < nl; i++ {
		d := ocispec.Descriptor{MediaType: ocispec.MediaTypeImageLayerGzip, Digest: verifDigests[vr.Choice("digest", 3)]}
		nu := vr.Len("nurls", maxURLs)
		for j := 0; j < nu; j++ {
			d.URLs = append(d.URLs, verifURL())
		}
		children = append(children, d)
	}
	return children
}

func verifTotalLen(ss []string) int {
	n := 0
	for _, s := range ss {
		n += len(s) + 1
	}
	return n
}

func verifIsPrefix(got, want []string) bool {
	if len(got) > len(want) {
		return false
	}
	for i := range got {
		if got[i] != want[i] {
			return false
		}
	}
	return true
}

// C20/H1: default-labels handler -> labels -> FromDefaultLabels round trip.
func VerifH_C20_defaultLabelsRoundTrip() {
	maxLayers, maxURLs := 3, 1
	if vr.Tier() > 0 {
		maxLayers, maxURLs = 3, 1 // (3,2) and (4,2) exceed 15 minutes without a finding; not registered
	}
	children := verifManifest(maxLayers, maxURLs)
	orig := make([]ocispec.Descriptor, len(children))
	for i := range children {
		orig[i] = children[i]
		orig[i].URLs = append([]string(nil), children[i].URLs...)
	}
	// decimal rendering of a symbolic int64 is outside the engine (64-bit division by powers of ten): representative values
	prefetch := []int64{0, 1, 10 << 20, 1<<63 - 1}[vr.Choice("prefetchsize", 4)]
	base := images.HandlerFunc(func(ctx context.Context, desc ocispec.Descriptor) ([]ocispec.Descriptor, error) {
		return children, nil
	})
	h := AppendDefaultLabelsHandlerWrapper(verifRef, prefetch)(base)
	out, err := h.Handle(context.Background(), ocispec.Descriptor{MediaType: ocispec.MediaTypeImageManifest})
	vr.Assert(err == nil && len(out) == len(orig), "handler-succeeds")
	get := FromDefaultLabels(nil)
	for i := 1; i < len(out); i++ {
		c := out[i]
		for k, v := range c.Annotations {
			vr.Assert(labels.Validate(k, v) == nil, "label-accepted-by-containerd-validation")
		}
		srcs, err := get(c.Annotations)
		vr.Assert(err == nil && len(srcs) == 1, "labels-parse-back")
		s := srcs[0]
		vr.Assert(s.Name.String() == verifRef, "reference-round-trips")
		vr.Assert(s.Target.Digest == orig[i].Digest, "digest-round-trips")
		vr.Assert(verifIsPrefix(s.Target.URLs, orig[i].URLs), "target-urls-are-a-prefix-of-own-urls")
		vr.Assert(len(s.Target.URLs) == len(orig[i].URLs) || verifTotalLen(orig[i].URLs) > 3000, "target-urls-dropped-only-at-the-label-size-limit")
		// neighbours: in manifest order, a prefix of the layers that follow (minus those equal to the target digest),
		// each with a prefix of its own URLs
		k := i + 1 // next candidate among the following layers
		for _, nb := range s.Manifest.Layers[1:] {
			for k < len(orig) && orig[k].Digest == orig[i].Digest {
				k++
			}
			vr.Assert(k < len(orig), "neighbour-exists-in-manifest")
			vr.Assert(nb.Digest == orig[k].Digest, "neighbour-in-manifest-order")
			vr.Assert(verifIsPrefix(nb.URLs, orig[k].URLs), "neighbour-paired-with-own-urls")
			k++
		}
		ps, ok := c.Annotations[config.TargetPrefetchSizeLabel]
		vr.Assert(ok, "prefetch-label-present")
		pv, perr := strconv.ParseInt(ps, 10, 64)
		vr.Assert(perr == nil && pv == prefetch, "prefetch-size-round-trips")
	}
	vr.Reach("end")
}

// C20/H4: a URL containing ',' cannot survive the comma-joined label (known finding F-C20-2: label protocol);
// every URL without ',' must round-trip.
func VerifH_C20_urlWithComma() {
	u := vr.Str("url", 3)
	hasComma := false
	for i := 0; i < len(u); i++ {
		vr.Assume(u[i]-0x21 <= 0x5d) // printable ASCII
		if u[i] == ',' {
			hasComma = true
		}
	}
	vr.Known("F-C20-2", hasComma)
	children := []ocispec.Descriptor{
		{MediaType: ocispec.MediaTypeImageConfig, Digest: verifDigests[3]},
		{MediaType: ocispec.MediaTypeImageLayerGzip, Digest: verifDigests[0], URLs: []string{u}},
	}
	base := images.HandlerFunc(func(ctx context.Context, desc ocispec.Descriptor) ([]ocispec.Descriptor, error) {
		return children, nil
	})
	out, err := AppendDefaultLabelsHandlerWrapper(verifRef, 0)(base).Handle(context.Background(), ocispec.Descriptor{MediaType: ocispec.MediaTypeImageManifest})
	vr.Assert(err == nil, "handler-succeeds")
	srcs, err := FromDefaultLabels(nil)(out[1].Annotations)
	vr.Assert(err == nil && len(srcs) == 1, "labels-parse-back")
	vr.Assert(len(srcs[0].Target.URLs) == 1 && srcs[0].Target.URLs[0] == u, "url-round-trips")
	vr.Reach("end")
}

// C20/H3: a missing or malformed mandatory label is rejected.
func VerifH_C20_mandatoryLabels() {
	lbl := map[string]string{
		targetRefLabel:    verifRef,
		targetDigestLabel: string(verifDigests[0]),
	}
	switch vr.Choice("corruption", 5) {
	case 0:
		delete(lbl, targetRefLabel)
	case 1:
		delete(lbl, targetDigestLabel)
	case 2:
		lbl[targetDigestLabel] = "sha256:zz"
	case 3:
		lbl[targetRefLabel] = ""
	case 4:
		lbl[targetImageLayersLabel] = string(verifDigests[1]) + ",nonsense"
	}
	_, err := FromDefaultLabels(nil)(lbl)
	vr.Assert(err != nil, "malformed-mandatory-label-rejected")
	vr.Reach("end")
}

// verifBoundaryURL: one URL whose length is around the point where key+value reaches the 4096-byte label limit.
func verifBoundaryURL() string {
	n := 4057 + vr.Choice("urllen", 7) // 4057..4063
	a := vr.Str("url", 1)
	vr.Assume(a[0]-'a' <= 25)
	return a + strings.Repeat("x", n-1)
}

// criLabelsWrapper mimics containerd's CRI snapshot-label handler: every layer gets the list of the layers from
// itself onwards under containerd.io/snapshot/cri.image-layers.
func verifCRIWrapper(f images.Handler) images.Handler {
	return images.HandlerFunc(func(ctx context.Context, desc ocispec.Descriptor) ([]ocispec.Descriptor, error) {
		children, err := f.Handle(ctx, desc)
		if err != nil {
			return nil, err
		}
		for i := range children {
			c := &children[i]
			if !images.IsLayerType(c.MediaType) {
				continue
			}
			if c.Annotations == nil {
				c.Annotations = map[string]string{}
			}
			var ls []string
			for _, l := range children[i:] {
				if images.IsLayerType(l.MediaType) {
					ls = append(ls, l.Digest.String())
				}
			}
			c.Annotations[targetImageLayersLabelContainerd] = strings.Join(ls, ",")
		}
		return children, nil
	})
}

// C20/H2: label-size limit. Both handler flavours with URL lists whose joined length straddles the 4096-byte
// limit: every label written must pass containerd's validation and what is written must be a prefix of the URLs.
func VerifH_C20_labelSizeLimit() {
	nl := 1 + vr.Len("layers", 1)
	children := []ocispec.Descriptor{{MediaType: ocispec.MediaTypeImageConfig, Digest: verifDigests[3]}}
	for i := 0; i < nl; i++ {
		d := ocispec.Descriptor{MediaType: ocispec.MediaTypeImageLayerGzip, Digest: verifDigests[i]}
		switch vr.Choice("urlshape", 3) {
		case 0:
			d.URLs = []string{verifBoundaryURL()}
		case 1:
			d.URLs = []string{verifURL(), verifBoundaryURL()}
		default:
			d.URLs = []string{verifURL()}
		}
		children = append(children, d)
	}
	orig := make([]ocispec.Descriptor, len(children))
	for i := range children {
		orig[i] = children[i]
		orig[i].URLs = append([]string(nil), children[i].URLs...)
	}
	base := images.HandlerFunc(func(ctx context.Context, desc ocispec.Descriptor) ([]ocispec.Descriptor, error) {
		return children, nil
	})
	var h images.Handler
	if vr.Bool("extraFlavour") {
		h = AppendExtraLabelsHandler(0, verifCRIWrapper)(base)
	} else {
		h = AppendDefaultLabelsHandlerWrapper(verifRef, 0)(base)
	}
	out, err := h.Handle(context.Background(), ocispec.Descriptor{MediaType: ocispec.MediaTypeImageManifest})
	vr.Assert(err == nil && len(out) == len(orig), "handler-succeeds")
	for i := 1; i < len(out); i++ {
		for k, v := range out[i].Annotations {
			vr.Assert(labels.Validate(k, v) == nil, "label-accepted-by-containerd-validation")
		}
		tu := out[i].Annotations[targetURLsLabel]
		if tu != "" {
			vr.Assert(verifIsPrefix(strings.Split(tu, ","), orig[i].URLs), "target-urls-label-is-a-prefix-of-own-urls")
		}
		// neighbour URL labels: label urls.<j> belongs to the j-th layer counted from this one
		for j := 0; i+j < len(out); j++ {
			if nu, ok := out[i].Annotations[targetImageURLsLabelPrefix+strconv.Itoa(j)]; ok && nu != "" {
				vr.Assert(verifIsPrefix(strings.Split(nu, ","), orig[i+j].URLs), "neighbour-urls-label-paired-with-own-layer")
			}
		}
	}
	vr.Reach("end")
}
