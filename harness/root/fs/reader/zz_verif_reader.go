//go:build verif

package reader

import (
	"errors"
	"io"
	"os"
	"strconv"

	"github.com/containerd/stargz-snapshotter/cache"
	"github.com/containerd/stargz-snapshotter/metadata"
	digest "github.com/opencontainers/go-digest"

	vr "github.com/containerd/stargz-snapshotter/zzverifrt"
)

// ---- models ------------------------------------------------------------------------------------------------

// verifCache: faithful key -> bytes store; Get of a present key may miss when evict is set.
type verifCache struct {
	m     map[string][]byte
	evict bool
}

type verifCacheWriter struct {
	c    *verifCache
	key  string
	buf  []byte
	done bool
}

func (w *verifCacheWriter) Write(p []byte) (int, error) {
	w.buf = append(w.buf, p...)
	return len(p), nil
}
func (w *verifCacheWriter) Close() error { return nil }
func (w *verifCacheWriter) Commit() error {
	if !w.done {
		w.done = true
		w.c.m[w.key] = w.buf
	}
	return nil
}
func (w *verifCacheWriter) Abort() error { w.done = true; return nil }

type verifCacheReader struct{ b []byte }

func (r *verifCacheReader) ReadAt(p []byte, off int64) (int, error) {
	if off < 0 || off > int64(len(r.b)) {
		return 0, io.EOF
	}
	n := copy(p, r.b[off:])
	if n < len(p) {
		return n, io.EOF
	}
	return n, nil
}
func (r *verifCacheReader) Close() error             { return nil }
func (r *verifCacheReader) GetReaderAt() io.ReaderAt { return r }

var errVerifMiss = errors.New("verif: cache miss")

func (c *verifCache) Add(key string, opts ...cache.Option) (cache.Writer, error) {
	return &verifCacheWriter{c: c, key: key}, nil
}
func (c *verifCache) Get(key string, opts ...cache.Option) (cache.Reader, error) {
	b, ok := c.m[key]
	if !ok {
		return nil, errVerifMiss
	}
	if c.evict && vr.Bool("evicted") {
		delete(c.m, key)
		return nil, errVerifMiss
	}
	return &verifCacheReader{b: b}, nil
}
func (c *verifCache) Close() error { return nil }

// verifFile: one regular file of the layer: chunk table (concrete shape), genuine bytes G (symbolic) and the bytes
// the backend actually delivers: genuine, or (when tamper is set) arbitrary bytes chosen per ReadAt call.
type verifFile struct {
	name    string // "" = "f<id>"
	inSub   bool   // lives in the sub-directory "app" (id 2) instead of the root
	id      uint32
	offs    []int64
	sizes   []int64
	digests []string
	G       []byte
	tamper  bool
	reads   int
	fail    bool
}

func (f *verifFile) size() int64 {
	if len(f.offs) == 0 {
		return 0
	}
	return f.offs[len(f.offs)-1] + f.sizes[len(f.sizes)-1]
}

func (f *verifFile) ChunkEntryForOffset(offset int64) (int64, int64, string, bool) {
	for i := range f.offs {
		if f.offs[i] <= offset && offset < f.offs[i]+f.sizes[i] {
			return f.offs[i], f.sizes[i], f.digests[i], true
		}
	}
	return 0, 0, "", false
}

var errVerifBackend = errors.New("verif: backend unreachable")

func (f *verifFile) ReadAt(p []byte, off int64) (int, error) {
	f.reads++
	if f.fail {
		return 0, errVerifBackend
	}
	if off < 0 || off >= f.size() {
		return 0, io.EOF
	}
	n := copy(p, f.G[off:])
	if f.tamper && vr.Bool("tampered") {
		alt := vr.Bytes("A", n)
		copy(p, alt)
	}
	if n < len(p) {
		return n, io.EOF
	}
	return n, nil
}

// verifMeta: metadata.Reader of a layer with a root directory holding the model files.
type verifMeta struct {
	files  []*verifFile
	tocDgs digest.Digest
}

func (m *verifMeta) RootID() uint32           { return 1 }
func (m *verifMeta) TOCDigest() digest.Digest { return m.tocDgs }
func (m *verifMeta) file(id uint32) *verifFile {
	for _, f := range m.files {
		if f.id == id {
			return f
		}
	}
	return nil
}
func (m *verifMeta) GetOffset(id uint32) (int64, error) {
	if f := m.file(id); f != nil {
		return int64(f.id) * 1000, nil
	}
	return 0, errVerifMiss
}
func (m *verifMeta) GetAttr(id uint32) (metadata.Attr, error) {
	if id == 1 || id == 2 {
		return metadata.Attr{Mode: os.ModeDir | 0755}, nil
	}
	if f := m.file(id); f != nil {
		return metadata.Attr{Size: f.size(), Mode: 0644}, nil
	}
	return metadata.Attr{}, errVerifMiss
}
func (m *verifMeta) GetChild(pid uint32, base string) (uint32, metadata.Attr, error) {
	return 0, metadata.Attr{}, errVerifMiss
}
func (m *verifMeta) ForeachChild(id uint32, f func(name string, id uint32, mode os.FileMode) bool) error {
	if id != 1 && id != 2 {
		return nil
	}
	if id == 1 {
		hasSub := false
		for _, fl := range m.files {
			hasSub = hasSub || fl.inSub
		}
		if hasSub && !f("app", 2, os.ModeDir|0755) {
			return nil
		}
	}
	for _, fl := range m.files {
		if fl.inSub != (id == 2) {
			continue
		}
		name := fl.name
		if name == "" {
			name = "f" + strconv.Itoa(int(fl.id))
		}
		if !f(name, fl.id, 0644) {
			break
		}
	}
	return nil
}
func (m *verifMeta) OpenFile(id uint32) (metadata.File, error) {
	if f := m.file(id); f != nil {
		return f, nil
	}
	return nil, errVerifMiss
}
func (m *verifMeta) OpenFileWithPreReader(id uint32, preRead func(id uint32, chunkOffset, chunkSize int64, chunkDigest string, r io.Reader) error) (metadata.File, error) {
	return m.OpenFile(id)
}
func (m *verifMeta) Clone(sr *io.SectionReader) (metadata.Reader, error) { return m, nil }
func (m *verifMeta) Close() error                                        { return nil }

// digest model: SHA-256 cannot be bit-blasted; a digest string names the genuine bytes registered for it and the
// verifier accepts exactly those bytes (collision-freeness of SHA-256 is the stated assumption).
var verifGenuine map[string][]byte

type verifVerifier struct {
	want []byte
	got  []byte
}

func (v *verifVerifier) Write(p []byte) (int, error) { v.got = append(v.got, p...); return len(p), nil }
func (v *verifVerifier) Verified() bool {
	if len(v.got) != len(v.want) {
		return false
	}
	ok := true
	for i := range v.want {
		ok = ok && v.got[i] == v.want[i]
	}
	return ok
}

func verifInstallDigestModel() {
	verifGenuine = map[string][]byte{}
	vr.Replace("(github.com/opencontainers/go-digest.Digest).Verifier", func(d digest.Digest) digest.Verifier {
		return &verifVerifier{want: verifGenuine[string(d)]}
	})
}

func verifDigestName(fileID uint32, chunk int) string {
	// a syntactically valid sha256 digest string, distinct per (file, chunk)
	s := strconv.Itoa(int(fileID)) + strconv.Itoa(chunk)
	for len(s) < 64 {
		s = "0" + s
	}
	return "sha256:" + s
}

// verifNewFile builds a file with nchunks chunks of sizes chosen from 1..maxChunk and symbolic genuine bytes.
func verifNewFile(id uint32, maxChunks, maxChunk int) *verifFile {
	f := &verifFile{id: id}
	n := 1 + vr.Choice("nchunks", maxChunks)
	off := int64(0)
	for c := 0; c < n; c++ {
		sz := int64(1 + vr.Choice("chunksize", maxChunk))
		f.offs = append(f.offs, off)
		f.sizes = append(f.sizes, sz)
		f.digests = append(f.digests, verifDigestName(id, c))
		off += sz
	}
	f.G = vr.Bytes("G", int(off))
	for c := 0; c < n; c++ {
		if vr.Native() {
			// native replay runs the real SHA-256 verifier: record the real digests of the (now concrete) genuine bytes
			f.digests[c] = digest.FromBytes(f.G[f.offs[c] : f.offs[c]+f.sizes[c]]).String()
		}
		verifGenuine[f.digests[c]] = f.G[f.offs[c] : f.offs[c]+f.sizes[c]]
	}
	return f
}

// cache invariant: whatever is stored under the key of chunk c of file f equals the genuine bytes of that chunk.
func verifCacheInvariant(c *verifCache, files []*verifFile) bool {
	ok := true
	for _, f := range files {
		for k := range f.offs {
			if v, present := c.m[genID(f.id, f.offs[k], f.sizes[k])]; present {
				ok = ok && int64(len(v)) == f.sizes[k]
				for j := range v {
					ok = ok && (int64(j) >= f.sizes[k] || v[j] == f.G[int(f.offs[k])+j])
				}
			}
		}
	}
	return ok
}

func verifPrefill(c *verifCache, f *verifFile) {
	for k := range f.offs {
		if vr.Bool("precached") {
			c.m[genID(f.id, f.offs[k], f.sizes[k])] = append([]byte(nil), f.G[f.offs[k]:f.offs[k]+f.sizes[k]]...)
		}
	}
}

// C01/H1 + C04/H4: a verified layer reads a file whose backend may deliver altered bytes for any chunk, from any
// cache state satisfying the invariant: bytes returned without error are genuine, and altered bytes are never
// left in the cache.
func VerifH_C01_readAtVerified() {
	maxChunks, maxChunk, maxLen := 2, 2, 3
	if vr.Tier() > 0 {
		maxChunks, maxChunk, maxLen = 3, 3, 5
	}
	verifInstallDigestModel()
	f := verifNewFile(7, maxChunks, maxChunk)
	f.tamper = true
	c := &verifCache{m: map[string][]byte{}, evict: true}
	verifPrefill(c, f)
	meta := &verifMeta{files: []*verifFile{f}, tocDgs: "sha256:toc"}
	vrd, _ := NewReader(meta, c, "sha256:layer")
	rd, err := vrd.VerifyTOC("sha256:toc")
	vr.Assert(err == nil, "verifytoc-accepts-matching-digest")
	ra, err := rd.OpenFile(7)
	vr.Assert(err == nil, "openfile")
	n := vr.Len("len", maxLen)
	off := vr.I64("offset")
	vr.Assume(0 <= off && off <= f.size()+1)
	p := make([]byte, n)
	got, rerr := ra.ReadAt(p, off)
	if rerr == nil {
		for i := 0; i < got; i++ {
			vr.Assert(off+int64(i) < f.size() && p[i] == f.G[int(off)+i], "verified-read-returns-only-genuine-bytes")
		}
	}
	vr.Assert(verifCacheInvariant(c, meta.files), "altered-bytes-never-cached")
	vr.Reach("end")
}

// C02/H2: honest backend: the read is exact (length and bytes), short past EOF, never an error, from any cache
// state; with verification on or off.
func VerifH_C02_readAtExact() {
	maxChunks, maxChunk, maxLen := 2, 2, 3
	if vr.Tier() > 0 {
		maxChunks, maxChunk, maxLen = 3, 3, 5
	}
	verifInstallDigestModel()
	f := verifNewFile(7, maxChunks, maxChunk)
	c := &verifCache{m: map[string][]byte{}, evict: true}
	verifPrefill(c, f)
	meta := &verifMeta{files: []*verifFile{f}, tocDgs: "sha256:toc"}
	vrd, _ := NewReader(meta, c, "sha256:layer")
	var rd Reader
	if vr.Bool("verify") {
		rd, _ = vrd.VerifyTOC("sha256:toc")
	} else {
		rd = vrd.SkipVerify()
	}
	ra, err := rd.OpenFile(7)
	vr.Assert(err == nil, "openfile")
	n := vr.Len("len", maxLen)
	off := vr.I64("offset")
	vr.Assume(0 <= off && off <= f.size()+1)
	p := make([]byte, n)
	got, rerr := ra.ReadAt(p, off)
	vr.Assert(rerr == nil, "honest-backend-never-errors")
	want := int64(n)
	if off >= f.size() {
		want = 0
	} else if f.size()-off < want {
		want = f.size() - off
	}
	vr.Assert(int64(got) == want, "read-length-exact-short-past-eof")
	for i := 0; i < got; i++ {
		vr.Assert(p[i] == f.G[int(off)+i], "read-bytes-exact")
	}
	vr.Assert(verifCacheInvariant(c, meta.files), "cache-invariant-preserved")
	vr.Reach("end")
}

// C01/H2: prefetch / VerifyTOC handshake. Events: readAndCache of a chunk whose bytes may be altered, and the
// VerifyTOC decision, in any order (sequential histories here; the two-thread version is the thorough harness).
// Whenever VerifyTOC returns a reader the TOC digest matched and no altered chunk is in the cache, and none is
// committed afterwards.
func VerifH_C01_verifyHandshake() {
	steps := 3
	verifInstallDigestModel()
	f := verifNewFile(7, 2, 2)
	c := &verifCache{m: map[string][]byte{}}
	meta := &verifMeta{files: []*verifFile{f}, tocDgs: "sha256:toc"}
	vrd, _ := NewReader(meta, c, "sha256:layer")
	accepted := false
	for s := 0; s < steps; s++ {
		if vr.Bool("verifyNow") {
			want := digest.Digest("sha256:toc")
			if vr.Bool("wrongDigest") {
				want = "sha256:other"
			}
			rd, err := vrd.VerifyTOC(want)
			if err == nil {
				vr.Assert(rd != nil && want == "sha256:toc", "verifytoc-succeeds-only-for-the-toc-digest")
				vr.Assert(verifCacheInvariant(c, meta.files), "verifytoc-fails-if-an-altered-chunk-was-cached")
				accepted = true
			}
		} else {
			k := vr.Choice("chunk", len(f.offs))
			data := append([]byte(nil), f.G[f.offs[k]:f.offs[k]+f.sizes[k]]...)
			if vr.Bool("altered") {
				data = vr.Bytes("A", len(data))
			}
			_ = vrd.readAndCache(f.id, &verifBytesReader{b: data}, f.offs[k], f.sizes[k], f.digests[k])
			if accepted {
				vr.Assert(verifCacheInvariant(c, meta.files), "no-altered-chunk-committed-after-the-decision")
			}
		}
	}
	vr.Reach("end")
}

type verifBytesReader struct{ b []byte }

func (r *verifBytesReader) Read(p []byte) (int, error) {
	if len(r.b) == 0 {
		return 0, io.EOF
	}
	n := copy(p, r.b)
	r.b = r.b[n:]
	return n, nil
}

// C01/H2 (two threads): a prefetch goroutine caching a possibly altered chunk races with the VerifyTOC decision.
// Context switches are explored at every lock / unlock of the reader's mutexes (bounded number of switches).
// Whatever the schedule: if VerifyTOC accepted, no altered chunk is in the cache once both have finished.
func VerifH_C01_verifyHandshakeThreads() {
	verifInstallDigestModel()
	f := verifNewFile(7, 1, 2)
	c := &verifCache{m: map[string][]byte{}}
	meta := &verifMeta{files: []*verifFile{f}, tocDgs: "sha256:toc"}
	vrd, _ := NewReader(meta, c, "sha256:layer")
	data := append([]byte(nil), f.G[f.offs[0]:f.offs[0]+f.sizes[0]]...)
	if vr.Bool("altered") {
		data = vr.Bytes("A", len(data))
	}
	vr.Interleave(8)
	done := make(chan struct{}, 1)
	go func() {
		_ = vrd.readAndCache(f.id, &verifBytesReader{b: data}, f.offs[0], f.sizes[0], f.digests[0])
		done <- struct{}{}
	}()
	_, err := vrd.VerifyTOC("sha256:toc")
	<-done
	if err == nil {
		vr.Assert(verifCacheInvariant(c, meta.files), "accepted-layer-has-no-altered-chunk-cached")
	}
	vr.Reach("end")
}

// C15: after Cache() with the prefetch filter (offset < s) succeeded, every file whose offset is below s is read
// completely with the backend unreachable; after Cache() without filter (background fetch) every regular file is.
// File names include the reserved TOC name in a sub-directory (only the root entry of that name is the TOC).
func VerifH_C15_cacheThenLocalReads() {
	verifInstallDigestModel()
	f1 := verifNewFile(7, 2, 2)
	f2 := verifNewFile(8, 1, 2)
	f2.inSub = vr.Bool("secondFileInSubdir")
	if vr.Bool("secondFileHasTOCName") {
		f2.name = "stargz.index.json"
	}
	c := &verifCache{m: map[string][]byte{}}
	meta := &verifMeta{files: []*verifFile{f1, f2}, tocDgs: "sha256:toc"}
	vrd, _ := NewReader(meta, c, "sha256:layer")
	rd, err := vrd.VerifyTOC("sha256:toc")
	vr.Assert(err == nil, "verifytoc")
	// offsets of the files in the blob are 7000 and 8000 (model); the prefetch boundary is symbolic
	var opts []CacheOption
	boundary := int64(1) << 40
	if vr.Bool("prefetchFilter") {
		boundary = vr.I64("boundary")
		vr.Assume(0 <= boundary && boundary <= 9000)
		b := boundary
		opts = append(opts, WithFilter(func(off int64) bool { return off < b }))
	}
	cerr := vrd.Cache(opts...)
	vr.Assert(cerr == nil, "cache-succeeds-with-an-honest-backend")
	for _, f := range meta.files {
		isRootTOC := f.name == "stargz.index.json" && !f.inSub
		if int64(f.id)*1000 >= boundary || isRootTOC {
			continue
		}
		f.fail = true // registry unreachable from now on
		ra, oerr := rd.OpenFile(f.id)
		vr.Assert(oerr == nil, "openfile")
		p := make([]byte, int(f.size()))
		n, rerr := ra.ReadAt(p, 0)
		vr.Assert(rerr == nil && int64(n) == f.size(), "prefetched-file-is-read-in-full-without-the-registry")
		for i := 0; i < n; i++ {
			vr.Assert(p[i] == f.G[i], "prefetched-bytes-exact")
		}
		vr.Assert(f.reads == 0 || f.fail, "no-backend-read")
	}
	vr.Reach("end")
}
