//go:build verif

package reader

import (
	"errors"
	"io"
	"os"

	"github.com/containerd/stargz-snapshotter/estargz"
	"github.com/containerd/stargz-snapshotter/metadata"
	"github.com/containerd/stargz-snapshotter/metadata/memory"
	digest "github.com/opencontainers/go-digest"

	vr "github.com/containerd/stargz-snapshotter/zzverifrt"
)

type verifTOCDecompressor struct{ toc *estargz.JTOC }

var errVerifModel = errors.New("verif: model error")

func (d *verifTOCDecompressor) Reader(r io.Reader) (io.ReadCloser, error) { return nil, errVerifModel }
func (d *verifTOCDecompressor) FooterSize() int64                         { return 0 }
func (d *verifTOCDecompressor) ParseFooter(p []byte) (int64, int64, int64, error) {
	return -1, -1, 0, nil
}
func (d *verifTOCDecompressor) ParseTOC(r io.Reader) (*estargz.JTOC, digest.Digest, error) {
	return d.toc, "sha256:toc", nil
}
func (d *verifTOCDecompressor) DecompressTOC(r io.Reader) (io.ReadCloser, error) {
	return nil, errVerifModel
}

type verifZeros struct{}

func (verifZeros) ReadAt(p []byte, off int64) (int, error) {
	for i := range p {
		p[i] = 0
	}
	return len(p), nil
}

// C04/H4: a layer whose TOC describes one file with arbitrary (inconsistent) chunk entries is opened through the
// real memory metadata store and read / cached through the real reader: errors are fine, panics and endless loops
// are not.
func VerifH_C04_readerAdversarialChunks() {
	n := 1
	if vr.Tier() > 0 {
		n = 1 + vr.Len("chunks", 1)
	}
	toc := &estargz.JTOC{Version: 1}
	for i := 0; i < n; i++ {
		e := &estargz.TOCEntry{Name: "f", Type: "chunk", ChunkOffset: vr.I64("chunkoffset"), ChunkSize: vr.I64("chunksize"),
			// blob offsets decide buffer sizes (concrete lengths in the engine): representative values incl. out of range
			Offset: []int64{0, 990, 1001, -1}[vr.Choice("offset", 4)]}
		// stated cut: buffers are allocated in proportion to the declared chunk size by design (a chunk must fit in
		// memory); declared chunk sizes above 6 bytes and file sizes above 8 are excluded, negative ones are not
		vr.Assume(e.ChunkSize <= 6)
		if i == 0 {
			e.Type = "reg"
			e.Size = vr.I64("size")
			vr.Assume(e.Size <= 8)
		}
		toc.Entries = append(toc.Entries, e)
	}
	sr := io.NewSectionReader(verifZeros{}, 0, 1000)
	meta, err := memory.NewReader(sr, metadata.WithDecompressors(&verifTOCDecompressor{toc: toc}))
	if err != nil {
		vr.Reach("rejected")
		return
	}
	c := &verifCache{m: map[string][]byte{}}
	vrd, _ := NewReader(meta, c, "sha256:layer")
	rd := vrd.SkipVerify()
	var fid uint32
	meta.ForeachChild(meta.RootID(), func(name string, id uint32, mode os.FileMode) bool {
		fid = id
		return true
	})
	switch vr.Choice("use", 2) {
	case 0: // on-demand read
		if ra, oerr := rd.OpenFile(fid); oerr == nil {
			p := make([]byte, vr.Len("len", 3))
			off := vr.I64("readoffset")
			vr.Assume(off >= 0)
			_, _ = ra.ReadAt(p, off)
		}
	default: // prefetch / background fetch walk
		_ = vrd.Cache()
	}
	vr.Reach("end")
}
