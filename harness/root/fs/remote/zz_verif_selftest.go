//go:build verif

package remote

import (
	"fmt"

	vr "github.com/containerd/stargz-snapshotter/zzverifrt"
)

// Translator validation for the root module (see the estargz self-test): region sets, chunk arithmetic and the
// byte-copying writer on concrete and pinned-symbolic inputs.
func VerifH_SELFTEST_remote() {
	seqs := [][]region{
		{{0, 2}, {10, 12}, {5, 6}},
		{{0, 2}, {3, 5}, {6, 8}},
		{{10, 20}, {0, 30}},
		{{0, 0}, {2, 2}, {1, 1}},
		{{5, 9}, {0, 3}, {4, 4}, {20, 29}, {10, 19}},
	}
	for k, seq := range seqs {
		var rs regionSet
		for _, r := range seq {
			rs.add(region{vr.SymbolizeI64(r.b), vr.SymbolizeI64(r.e)})
		}
		out := ""
		for _, r := range rs.rs {
			out += fmt.Sprintf("[%d,%d]", r.b, r.e)
		}
		vr.Report(fmt.Sprintf("regionset-%d", k), fmt.Sprint(out, rs.totalSize()))
	}
	for _, c := range [][2]int64{{0, 3}, {2, 3}, {3, 3}, {10, 4}, {11, 4}} {
		vr.Report(fmt.Sprintf("floorceil-%d-%d", c[0], c[1]), fmt.Sprint(floor(vr.SymbolizeI64(c[0]), c[1]), ceil(vr.SymbolizeI64(c[0]), c[1]), positive(vr.SymbolizeI64(c[0])-5)))
	}
	dest := make([]byte, 4)
	w := newBytesWriter(dest, 3)
	w.Write([]byte("ab"))
	w.Write([]byte("cdef"))
	w.Write([]byte("ghij"))
	vr.Report("byteswriter", string(dest))
	vr.Report("superregion", fmt.Sprint(superRegion([]region{{5, 9}, {1, 2}, {7, 30}})))
	vr.Reach("end")
}
