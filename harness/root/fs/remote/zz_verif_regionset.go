//go:build verif

package remote

import vr "github.com/containerd/stargz-snapshotter/zzverifrt"

// regionSetInv: sorted, non-empty regions, pairwise disjoint and non-adjacent (e_i + 1 < b_{i+1}).
func verifRegionSetInv(rs *regionSet, lim int64) bool {
	ok := true
	for i := range rs.rs {
		r := rs.rs[i]
		ok = ok && 0 <= r.b && r.b <= r.e && r.e < lim
		if i > 0 {
			ok = ok && rs.rs[i-1].e+1 < r.b
		}
	}
	return ok
}

func verifCovers(rs *regionSet, x int64) bool {
	c := false
	for i := range rs.rs {
		c = c || (rs.rs[i].b <= x && x <= rs.rs[i].e)
	}
	return c
}

// VerifH_C06_regionSetStep: one add() from an arbitrary state satisfying the representation invariant.
func VerifH_C06_regionSetStep() {
	const lim = int64(1) << 40
	maxN := 3
	if vr.Tier() > 0 {
		maxN = 5
	}
	n := vr.Len("n", maxN)
	rs := regionSet{rs: make([]region, n)}
	for i := range rs.rs {
		rs.rs[i] = region{vr.I64("b"), vr.I64("e")}
	}
	vr.Assume(verifRegionSetInv(&rs, lim))
	r := region{vr.I64("rb"), vr.I64("re")}
	vr.Assume(0 <= r.b && r.b <= r.e && r.e < lim)
	x := vr.I64("probe")
	pre := verifCovers(&rs, x)
	preTotal := rs.totalSize()

	rs.add(r) // real code

	vr.Assert(verifRegionSetInv(&rs, lim), "regionset-invariant")
	vr.Assert(verifCovers(&rs, x) == (pre || (r.b <= x && x <= r.e)), "regionset-union")
	post := rs.totalSize()
	vr.Assert(post >= preTotal, "regionset-totalsize-monotone")
	vr.Assert(post <= lim, "regionset-totalsize-bounded")
	vr.Reach("end")
}
