//go:build verif

package remote

import (
	"context"
	"errors"
	"io"
	"strconv"
	"time"

	"github.com/containerd/stargz-snapshotter/cache"
	"golang.org/x/sync/singleflight"

	vr "github.com/containerd/stargz-snapshotter/zzverifrt"
)

// ---- environment models (part of the claim; listed in the evidence) -------------------------------------------

// verifCache: faithful key -> bytes store. A Get of a present key may additionally miss (eviction) when evict is on.
type verifCache struct {
	m       map[string][]byte
	evict   bool
	commits int
}

type verifCacheWriter struct {
	c    *verifCache
	key  string
	buf  []byte
	done bool
}

func (w *verifCacheWriter) Write(p []byte) (int, error) {
	w.buf = append(w.buf, p...)
	return len(p), nil
}
func (w *verifCacheWriter) Close() error { return nil }
func (w *verifCacheWriter) Commit() error {
	if !w.done {
		w.done = true
		w.c.m[w.key] = w.buf
		w.c.commits++
	}
	return nil
}
func (w *verifCacheWriter) Abort() error { w.done = true; return nil }

type verifCacheReader struct{ b []byte }

func (r *verifCacheReader) ReadAt(p []byte, off int64) (int, error) {
	if off < 0 || off > int64(len(r.b)) {
		return 0, io.EOF
	}
	n := copy(p, r.b[off:])
	if n < len(p) {
		return n, io.EOF
	}
	return n, nil
}
func (r *verifCacheReader) Close() error             { return nil }
func (r *verifCacheReader) GetReaderAt() io.ReaderAt { return r }

var errVerifMiss = errors.New("verif: cache miss")

func (c *verifCache) Add(key string, opts ...cache.Option) (cache.Writer, error) {
	return &verifCacheWriter{c: c, key: key}, nil
}
func (c *verifCache) Get(key string, opts ...cache.Option) (cache.Reader, error) {
	b, ok := c.m[key]
	if !ok {
		return nil, errVerifMiss
	}
	if c.evict && vr.Bool("evicted") {
		delete(c.m, key)
		return nil, errVerifMiss
	}
	return &verifCacheReader{b: b}, nil
}
func (c *verifCache) Close() error { return nil }

// verifFetcher: scripted registry. Contract (the boundary of the claim): every region it returns is delivered with
// exactly B[region]; which regions it returns, and in how many Read slices, is nondeterministic.
type verifFetcher struct {
	blob        []byte
	fetches     int
	personality int // -1: choose per call
	// arbitraryFirst: the first reply is one part with an arbitrary Content-Range (personality 5)
	arbitraryFirst bool
	maxRead        int // bytes per Read call (0 = all)
}

func verifKeyOf(reg region) string {
	return "k" + strconv.Itoa(vr.Concrete(int(reg.b))) + "-" + strconv.Itoa(vr.Concrete(int(reg.e)))
}

func (f *verifFetcher) genID(reg region) string { return verifKeyOf(reg) }
func (f *verifFetcher) check() error            { return nil }

type verifPart struct {
	reg region
}

type verifMultipart struct {
	f     *verifFetcher
	parts []region
	pos   int
}

type verifSliceReader struct {
	b       []byte
	maxRead int
}

func (r *verifSliceReader) Read(p []byte) (int, error) {
	if len(r.b) == 0 {
		return 0, io.EOF
	}
	n := len(p)
	if r.maxRead > 0 && n > r.maxRead {
		n = r.maxRead
	}
	n = copy(p[:n], r.b)
	r.b = r.b[n:]
	return n, nil
}

func (m *verifMultipart) Next() (region, io.Reader, error) {
	if m.pos >= len(m.parts) {
		return region{}, nil, io.EOF
	}
	reg := m.parts[m.pos]
	m.pos++
	lo, hi := reg.b, reg.e+1
	if hi > int64(len(m.f.blob)) {
		hi = int64(len(m.f.blob))
	}
	if lo > hi {
		lo = hi
	}
	return reg, &verifSliceReader{b: m.f.blob[vr.Concrete(int(lo)):vr.Concrete(int(hi))], maxRead: m.f.maxRead}, nil
}
func (m *verifMultipart) Close() error { return nil }

var errVerifFetch = errors.New("verif: registry error")

func (f *verifFetcher) fetch(ctx context.Context, rs []region, retry bool) (multipartReadCloser, error) {
	f.fetches++
	p := f.personality
	if p < 0 {
		p = vr.Choice("personality", 5)
	}
	if f.arbitraryFirst && f.fetches == 1 {
		p = 5
	}
	size := int64(len(f.blob))
	switch p {
	case 0: // exact multipart: the requested regions, in request order
		return &verifMultipart{f: f, parts: append([]region(nil), rs...)}, nil
	case 1: // one squashed super-range
		return &verifMultipart{f: f, parts: []region{superRegion(rs)}}, nil
	case 2: // whole body
		if size == 0 {
			return &verifMultipart{f: f}, nil
		}
		return &verifMultipart{f: f, parts: []region{{0, size - 1}}}, nil
	case 3: // transient failure
		return nil, errVerifFetch
	case 5: // one part with an arbitrary Content-Range (unrequested, unaligned, empty, reaching past the end of the
		// blob - parseRange admits any pair of non-negative numbers); its body carries the blob's bytes of that range
		b, e := vr.I64("partBegin"), vr.I64("partEnd")
		vr.Assume(0 <= b && b <= size+2)
		vr.Assume(0 <= e && e <= size+2)
		return &verifMultipart{f: f, parts: []region{{b, e}}}, nil
	default: // one requested part is missing from the reply
		if len(rs) == 0 {
			return &verifMultipart{f: f}, nil
		}
		return &verifMultipart{f: f, parts: append([]region(nil), rs[1:]...)}, nil
	}
}

type verifBlobEnv struct {
	b     *blob
	c     *verifCache
	f     *verifFetcher
	bytes []byte
	size  int64
	cs    int64
}

// verifCacheInvariant: every entry stored under the key of chunk [b,e] equals B[b..e].
func (env *verifBlobEnv) cacheInvariant() bool {
	ok := true
	for i := int64(0); i < env.size; i += env.cs {
		e := i + env.cs - 1
		if e >= env.size {
			e = env.size - 1
		}
		if v, present := env.c.m["k"+strconv.Itoa(int(i))+"-"+strconv.Itoa(int(e))]; present {
			ok = ok && len(v) == int(e-i+1)
			for j := range v {
				ok = ok && (j >= int(e-i+1) || v[j] == env.bytes[int(i)+j])
			}
		}
	}
	return ok
}

func (env *verifBlobEnv) cachedBytes() int64 {
	n := int64(0)
	for i := int64(0); i < env.size; i += env.cs {
		e := i + env.cs - 1
		if e >= env.size {
			e = env.size - 1
		}
		if _, present := env.c.m["k"+strconv.Itoa(int(i))+"-"+strconv.Itoa(int(e))]; present {
			n += e - i + 1
		}
	}
	return n
}

func verifNewBlobEnv(maxSize, maxCS int, prefill bool) *verifBlobEnv {
	size := vr.Len("blobsize", maxSize)
	cs := 1 + vr.Choice("chunksize", maxCS)
	env := &verifBlobEnv{size: int64(size), cs: int64(cs)}
	env.bytes = vr.Bytes("B", size)
	env.c = &verifCache{m: map[string][]byte{}}
	env.f = &verifFetcher{blob: env.bytes, personality: -1}
	if prefill {
		// arbitrary initial cache state satisfying the invariant: any subset of chunks present with their bytes
		for i := 0; i < size; i += cs {
			e := i + cs - 1
			if e >= size {
				e = size - 1
			}
			if vr.Bool("precached") {
				env.c.m["k"+strconv.Itoa(i)+"-"+strconv.Itoa(e)] = append([]byte(nil), env.bytes[i:e+1]...)
			}
		}
	}
	env.b = makeBlob(env.f, env.size, env.cs, env.cs, env.c, time.Time{}, 0, nil, time.Second)
	return env
}

// verifReadAtCheck performs one ReadAt with symbolic (offset, len) and asserts the C06 clauses.
func verifReadAtCheck(env *verifBlobEnv, maxLen int) {
	n := vr.Len("len", maxLen)
	off := vr.I64("offset")
	vr.Assume(0 <= off && off <= env.size+2)
	p := make([]byte, n)
	for i := range p {
		p[i] = 0xEE
	}
	preFetched := env.b.FetchedSize()
	got, err := env.b.ReadAt(p, off)
	if err == nil {
		want := int64(n)
		if off >= env.size {
			want = 0
		} else if env.size-off < want {
			want = env.size - off
		}
		vr.Assert(int64(got) == want, "readat-length")
		for i := 0; i < got; i++ {
			vr.Assert(p[i] == env.bytes[int(off)+i], "readat-bytes-exact")
		}
	}
	vr.Assert(env.cacheInvariant(), "cache-invariant-preserved")
	post := env.b.FetchedSize()
	vr.Assert(post >= preFetched, "fetched-size-monotone")
	vr.Assert(post <= env.size, "fetched-size-bounded-by-blob-size")
}

// C15/H3b (third seed round, C15-m3): Cache(0,s) after an earlier on-demand read anywhere in the blob. The fetched-size
// counter is then non-zero before Cache runs, so a Cache that trusts the counter instead of the cache contents is exposed:
// whatever was read before, after a successful Cache(0,s) every read inside [0,s) is local and byte-exact.
func VerifH_C06_cacheThenLocalAfterRead() {
	maxSize, maxCS := 4, 2
	if vr.Tier() > 0 {
		maxSize, maxCS = 6, 3
	}
	env := verifNewBlobEnv(maxSize, maxCS, false)
	off0 := vr.I64("prioroffset")
	n0 := vr.Len("priorlen", 2)
	vr.Assume(0 <= off0 && off0 <= env.size)
	p0 := make([]byte, n0)
	env.b.ReadAt(p0, off0)
	s := vr.I64("cachesize")
	vr.Assume(0 < s && s <= env.size)
	err := env.b.Cache(0, s)
	vr.Assert(env.cacheInvariant(), "cache-invariant-preserved")
	if err != nil {
		vr.Reach("cache-failed")
		return
	}
	before := env.f.fetches
	off := vr.I64("offset")
	n := vr.Len("len", 2)
	vr.Assume(0 <= off && off <= s && off+int64(n) <= s)
	p := make([]byte, n)
	got, rerr := env.b.ReadAt(p, off)
	vr.Assert(rerr == nil && got == n, "local-read-succeeds")
	vr.Assert(env.f.fetches == before, "no-registry-request-after-cache")
	for i := 0; i < got; i++ {
		vr.Assert(p[i] == env.bytes[int(off)+i], "local-read-bytes-exact")
	}
	vr.Reach("end")
}

// C06/H2d: as H2a, but the first reply of the registry is a single part whose Content-Range is arbitrary
// (unrequested, unaligned, empty, reaching past the end of the blob); later replies follow the usual personalities.
func VerifH_C06_readAtArbitraryPart() {
	maxSize, maxLen := 3, 2
	env := verifNewBlobEnv(maxSize, 1, true)
	env.b.chunkSize++
	env.b.prefetchChunkSize++
	env.cs++
	env.c.m = map[string][]byte{}
	for i := int64(0); i < env.size; i += env.cs {
		e := i + env.cs - 1
		if e >= env.size {
			e = env.size - 1
		}
		if vr.Bool("precached") {
			env.c.m["k"+strconv.Itoa(int(i))+"-"+strconv.Itoa(int(e))] = append([]byte(nil), env.bytes[i:e+1]...)
		}
	}
	env.f.arbitraryFirst = true
	verifReadAtCheck(env, maxLen)
	vr.Reach("end")
}

// C06/H2a: one ReadAt from an arbitrary cache state (invariant) under every server personality and every delivery
// granularity (the reply body arrives in Read slices of 1, 2 or all bytes).
func VerifH_C06_readAtExact() {
	maxSize, maxCS, maxLen := 4, 2, 3
	if vr.Tier() > 0 {
		maxSize, maxCS, maxLen = 5, 3, 4
	}
	env := verifNewBlobEnv(maxSize, maxCS, true)
	env.b.chunkSize++ // chunk sizes 2..maxCS+1 (size 1 never straddles)
	env.b.prefetchChunkSize++
	env.cs++
	// rebuild the initial cache for the shifted chunk size
	env.c.m = map[string][]byte{}
	for i := int64(0); i < env.size; i += env.cs {
		e := i + env.cs - 1
		if e >= env.size {
			e = env.size - 1
		}
		if vr.Bool("precached") {
			env.c.m["k"+strconv.Itoa(int(i))+"-"+strconv.Itoa(int(e))] = append([]byte(nil), env.bytes[i:e+1]...)
		}
	}
	env.f.maxRead = vr.Choice("readslice", 3) // 0 = whole part per Read, else 1 or 2 bytes per Read
	verifReadAtCheck(env, maxLen)
	vr.Reach("end")
}

// C06/H2b: the same read with cache eviction at every lookup and the single-flight hand-over: "another caller ran
// this fetch" and left any subset of chunks in the cache (cache loss between fetch and copy included).
func VerifH_C06_readAtSharedFlight() {
	maxSize, maxLen := 4, 3
	if vr.Tier() > 0 {
		maxSize, maxLen = 6, 4
	}
	env := verifNewBlobEnv(maxSize, 1, false)
	env.b.chunkSize, env.b.prefetchChunkSize, env.cs = 2, 2, 2
	env.c.evict = true
	env.f.personality = vr.Choice("personality", 2) // exact parts or squashed range
	sharedBudget := 1
	vr.Replace("(*golang.org/x/sync/singleflight.Group).Do", func(g *singleflight.Group, key string, fn func() (any, error)) (any, error, bool) {
		if sharedBudget > 0 && vr.Bool("sharedFlight") {
			sharedBudget--
			for i := int64(0); i < env.size; i += env.cs {
				e := i + env.cs - 1
				if e >= env.size {
					e = env.size - 1
				}
				if vr.Bool("otherCallerCached") {
					env.c.m["k"+strconv.Itoa(int(i))+"-"+strconv.Itoa(int(e))] = append([]byte(nil), env.bytes[i:e+1]...)
				}
			}
			return nil, nil, true
		}
		v, err := fn()
		return v, err, false
	})
	verifReadAtCheck(env, maxLen)
	vr.Reach("end")
}

// C06/H3 + C15: after Cache(0, s) succeeded, a read inside [0, s) is served locally (no fetch), byte-exact.
func VerifH_C06_cacheThenLocal() {
	maxSize, maxCS := 5, 3
	if vr.Tier() > 0 {
		maxSize, maxCS = 8, 4
	}
	env := verifNewBlobEnv(maxSize, maxCS, false)
	s := vr.I64("cachesize")
	vr.Assume(0 <= s && s <= env.size)
	err := env.b.Cache(0, s)
	vr.Assert(env.cacheInvariant(), "cache-invariant-preserved")
	if err != nil || s == 0 {
		vr.Reach("cache-failed")
		return
	}
	vr.Assert(env.b.FetchedSize() == env.cachedBytes(), "fetched-size-equals-bytes-stored-locally")
	before := env.f.fetches
	off := vr.I64("offset")
	n := vr.Len("len", 3)
	vr.Assume(0 <= off && off <= s && off+int64(n) <= s)
	p := make([]byte, n)
	got, rerr := env.b.ReadAt(p, off)
	vr.Assert(rerr == nil && got == n, "local-read-succeeds")
	vr.Assert(env.f.fetches == before, "no-registry-request-after-cache")
	for i := 0; i < got; i++ {
		vr.Assert(p[i] == env.bytes[int(off)+i], "local-read-bytes-exact")
	}
	vr.Reach("end")
}
