//go:build verif

package remote

import (
	"bytes"
	"context"
	"errors"
	"io"
	"net/http"

	vr "github.com/containerd/stargz-snapshotter/zzverifrt"
)

const (
	verifRegistryHost = "registry.example.com"
	verifCDNHost      = "cdn.example.net"
	verifSecretHeader = "X-Registry-Secret"
)

type verifReq struct {
	host   string
	secret bool
}

// verifRT: scripted registry + CDN. Every request is answered with a nondeterministically chosen status class;
// the registry may redirect blob requests to the CDN. Requests are recorded with their target host and whether
// they carry the header configured for the registry host.
type verifRT struct {
	log    []verifReq
	budget int
}

func (t *verifRT) RoundTrip(req *http.Request) (*http.Response, error) {
	t.log = append(t.log, verifReq{host: req.URL.Host, secret: req.Header.Get(verifSecretHeader) != ""})
	if t.budget <= 0 {
		return nil, errors.New("verif: request budget exhausted")
	}
	t.budget--
	mk := func(code int, status string) *http.Response {
		return &http.Response{StatusCode: code, Status: status, Header: http.Header{}, Body: io.NopCloser(bytes.NewReader([]byte("xy"))), Request: req}
	}
	choices := 5
	if req.URL.Host == verifRegistryHost {
		choices = 6
	}
	switch vr.Choice("reply", choices) {
	case 0:
		r := mk(200, "200 OK")
		r.Header.Set("Content-Length", "10")
		return r, nil
	case 1:
		r := mk(206, "206 Partial Content")
		r.Header.Set("Content-Type", "application/octet-stream")
		r.Header.Set("Content-Range", "bytes 0-1/10")
		r.Header.Set("Content-Length", "2")
		return r, nil
	case 2:
		return mk(403, "403 Forbidden"), nil
	case 3:
		return mk(400, "400 Bad Request"), nil
	case 4:
		return mk(401, "401 Unauthorized"), nil
	default:
		r := mk(307, "307 Temporary Redirect")
		r.Header.Set("Location", "https://"+verifCDNHost+"/blob?sig=1")
		return r, nil
	}
}

// C18/H2: headers configured for a registry host reach that host only: never the location a blob request was
// redirected to, on any request path (initial resolution, size probe, range fetch, connectivity check, URL refresh
// after an expired redirect). Also: every operation terminates within a bounded number of requests (C04: registry
// replies never make the fetcher loop).
func VerifH_C18_headerConfinement() {
	tr := &verifRT{budget: 12}
	hdr := http.Header{}
	hdr.Set(verifSecretHeader, "s3cr3t")
	blobURL := "https://" + verifRegistryHost + "/v2/library/a/blobs/sha256:aa"
	ctx := context.Background()
	url, withHeader, err := redirect(ctx, blobURL, tr, 0, hdr)
	if err == nil {
		if _, serr := getSize(ctx, url, tr, 0, withHeader); serr == nil {
			f := &httpFetcher{url: url, tr: tr, blobURL: blobURL, digest: "sha256:aa", header: withHeader, orgHeader: hdr}
			for k := 0; k < 2; k++ {
				before := len(tr.log)
				if vr.Bool("doFetch") {
					if mr, ferr := f.fetch(ctx, []region{{0, 1}}, true); ferr == nil {
						mr.Close()
					}
					// one request, plus at most one URL refresh and one retry
					vr.Assert(len(tr.log)-before <= 3, "fetch-makes-a-bounded-number-of-requests")
				} else {
					_ = f.check()
					vr.Assert(len(tr.log)-before <= 2, "check-makes-a-bounded-number-of-requests")
				}
			}
		}
	}
	for _, r := range tr.log {
		vr.Assert(!r.secret || r.host == verifRegistryHost, "registry-headers-are-sent-to-the-registry-host-only")
	}
	vr.Reach("end")
}
