//go:build verif

package cacheutil

import (
	"time"

	vr "github.com/containerd/stargz-snapshotter/zzverifrt"
)

// C10: histories of Add / Get / Remove / release(evict?) / repeated release / timer expiry over the refcounted
// LRU and TTL caches, with symbolic keys (one byte, two or three possible values), symbolic evict flags and a
// nondeterministic choice of which handle is released. Ghost state: per value the number of eviction callbacks and
// its live holders.

type verifVal struct {
	id      int
	evicted int
}

type verifHolder struct {
	v        *verifVal
	done     func()
	doneTTL  func(bool)
	released bool
}

type verifGhost struct {
	vals    []*verifVal
	holders []*verifHolder
}

func (g *verifGhost) onEvicted(key string, v any) {
	val := v.(*verifVal)
	val.evicted++
	vr.Assert(val.evicted == 1, "callback-at-most-once")
	for _, h := range g.holders {
		if h.v == val {
			vr.Assert(h.released, "no-callback-while-held")
		}
	}
}

func (g *verifGhost) check() {
	for _, h := range g.holders {
		if !h.released {
			vr.Assert(h.v.evicted == 0, "holder-never-sees-finalised-value")
		}
	}
}

func verifKey(nkeys int) string {
	k := vr.Str("key", 1)
	if nkeys == 2 {
		vr.Assume(k[0] == 'a' || k[0] == 'b')
	} else {
		vr.Assume(k[0] == 'a' || k[0] == 'b' || k[0] == 'c')
	}
	return k
}

func VerifH_C10_lruHistory() {
	steps, nkeys := 4, 2
	if vr.Tier() > 0 {
		steps, nkeys = 5, 3
	}
	capacity := 1 + vr.Choice("capacity", 2)
	g := &verifGhost{}
	c := NewLRUCache(capacity)
	c.OnEvicted = g.onEvicted
	for s := 0; s < steps; s++ {
		switch vr.Choice("op", 5) {
		case 0: // Add
			k := verifKey(nkeys)
			nv := &verifVal{id: len(g.vals)}
			cached, done, added := c.Add(k, nv)
			if added {
				g.vals = append(g.vals, nv)
				vr.Assert(cached == any(nv), "add-returns-new-value")
			} else {
				vr.Assert(cached != any(nv), "add-existing-returns-cached-value")
			}
			cv := cached.(*verifVal)
			vr.Assert(cv.evicted == 0, "add-never-returns-finalised-value")
			g.holders = append(g.holders, &verifHolder{v: cv, done: done})
		case 1: // Get
			k := verifKey(nkeys)
			if v, done, ok := c.Get(k); ok {
				cv := v.(*verifVal)
				vr.Assert(cv.evicted == 0, "get-never-returns-finalised-value")
				g.holders = append(g.holders, &verifHolder{v: cv, done: done})
			}
		case 2: // Remove
			c.Remove(verifKey(nkeys))
		case 3: // release some handle (possibly one that was already released: must be harmless)
			if n := len(g.holders); n > 0 {
				h := g.holders[vr.Choice("handle", n)]
				h.released = true
				h.done()
			}
		default: // release the most recent handle twice in a row
			if n := len(g.holders); n > 0 {
				h := g.holders[n-1]
				h.released = true
				h.done()
				h.done()
			}
		}
		g.check()
	}
	// drain: release everything and empty the cache; nothing may leak, nothing may be finalised twice
	for _, h := range g.holders {
		h.released = true
		h.done()
	}
	c.Remove("a")
	c.Remove("b")
	c.Remove("c")
	for _, v := range g.vals {
		vr.Assert(v.evicted == 1, "every-value-finalised-exactly-once")
	}
	vr.Reach("end")
}

func VerifH_C10_ttlHistory() {
	steps, nkeys := 4, 2
	if vr.Tier() > 0 {
		steps, nkeys = 5, 3
	}
	g := &verifGhost{}
	c := NewTTLCache(time.Second)
	c.OnEvicted = g.onEvicted
	for s := 0; s < steps; s++ {
		switch vr.Choice("op", 5) {
		case 0: // Add
			k := verifKey(nkeys)
			nv := &verifVal{id: len(g.vals)}
			cached, done, added := c.Add(k, nv)
			if added {
				g.vals = append(g.vals, nv)
				vr.Assert(cached == any(nv), "add-returns-new-value")
			} else {
				vr.Assert(cached != any(nv), "add-existing-returns-cached-value")
			}
			cv := cached.(*verifVal)
			vr.Assert(cv.evicted == 0, "add-never-returns-finalised-value")
			g.holders = append(g.holders, &verifHolder{v: cv, doneTTL: done})
		case 1: // Get
			k := verifKey(nkeys)
			if v, done, ok := c.Get(k); ok {
				cv := v.(*verifVal)
				vr.Assert(cv.evicted == 0, "get-never-returns-finalised-value")
				g.holders = append(g.holders, &verifHolder{v: cv, doneTTL: done})
			}
		case 2: // Remove
			c.Remove(verifKey(nkeys))
		case 3: // release some handle, evicting or not (possibly repeated)
			if n := len(g.holders); n > 0 {
				h := g.holders[vr.Choice("handle", n)]
				h.released = true
				h.doneTTL(vr.Bool("evict"))
			}
		default: // a pending expiry timer fires
			if n := vr.Timers(); n > 0 {
				vr.FireTimer(vr.Choice("timer", n))
			}
		}
		g.check()
	}
	for _, h := range g.holders {
		h.released = true
		h.doneTTL(false)
	}
	c.Remove("a")
	c.Remove("b")
	c.Remove("c")
	for _, v := range g.vals {
		vr.Assert(v.evicted == 1, "every-value-finalised-exactly-once")
	}
	vr.Assert(vr.Timers() == 0, "no-timer-left-armed")
	vr.Reach("end")
}
