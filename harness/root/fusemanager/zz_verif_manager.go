//go:build verif

package fusemanager

import (
	"context"
	"errors"

	"github.com/containerd/stargz-snapshotter/service"
	"github.com/containerd/stargz-snapshotter/snapshot"
	"github.com/moby/sys/mountinfo"

	pb "github.com/containerd/stargz-snapshotter/fusemanager/api"
	vb "github.com/containerd/stargz-snapshotter/zzverifbolt"
	vr "github.com/containerd/stargz-snapshotter/zzverifrt"
)

// verifBackend: one filesystem instance created by service.NewFileSystem; calls fail when the fault bit says so.
type verifBackend struct {
	id      int
	mounted map[string]map[string]string // mountpoint -> labels
	checks  map[string]int
}

var errVerifFault = errors.New("verif: injected fault")

func (b *verifBackend) Mount(ctx context.Context, mountpoint string, labels map[string]string) error {
	if verifFault("mountFails") {
		return errVerifFault
	}
	vr.Assert(verifLiveMounts(mountpoint) == 0, "a-live-mountpoint-is-never-mounted-a-second-time")
	// labels: those of the request being served, or on restore those recorded for the mountpoint
	want := verifExpectLabel[mountpoint]
	wantLen := 1
	if want == "xp" {
		wantLen = 2
	}
	vr.Assert(labels["l"] == want && len(labels) == wantLen, "mounted-with-the-requested-or-recorded-labels")
	b.mounted[mountpoint] = labels
	return nil
}
func (b *verifBackend) Check(ctx context.Context, mountpoint string, labels map[string]string) error {
	_, ok := b.mounted[mountpoint]
	vr.Assert(ok, "check-reaches-the-instance-that-mounted")
	b.checks[mountpoint]++
	return nil
}
func (b *verifBackend) Unmount(ctx context.Context, mountpoint string) error {
	_, ok := b.mounted[mountpoint]
	vr.Assert(ok, "unmount-reaches-the-instance-that-mounted")
	if verifFault("unmountFails") {
		return errVerifFault
	}
	delete(b.mounted, mountpoint)
	return nil
}

var verifBackends []*verifBackend

// fault budget: at most this many injected faults per history
var verifFaults int

func verifFault(tag string) bool {
	if verifFaults > 0 && vr.Bool(tag) {
		verifFaults--
		return true
	}
	return false
}

// label value each mountpoint must be mounted with if the backend is asked to mount it now
var verifExpectLabel map[string]string

func verifLiveMounts(mp string) int {
	n := 0
	for _, b := range verifBackends {
		if _, ok := b.mounted[mp]; ok {
			n++
		}
	}
	return n
}

var verifMountpoints = []string{"/mp/a", "/mp/b"}

// C17: histories of Init / Mount / Check / Unmount and manager restarts (store kept) with mount / unmount /
// filesystem-construction faults.
func VerifH_C17_managerHistory() {
	steps := 4
	if vr.Tier() > 0 {
		steps = 5
	}
	vr.EngineOnlyReplay("bbolt, encoding/json, service.NewFileSystem and mountinfo are replaced by models inside the engine")
	bm := vb.Install()
	verifBackends = nil
	verifFaults = 1
	if vr.Tier() > 0 {
		verifFaults = 2
	}
	verifExpectLabel = map[string]string{}
	// encoding/json is reflection-driven: an opaque injective codec with json's merge-into-existing-map semantics
	var blobs []*fuseInfo
	vr.Replace("encoding/json.Marshal", func(v any) ([]byte, error) {
		if fi, ok := v.(*fuseInfo); ok {
			cp := *fi
			cp.Labels = map[string]string{}
			for k, x := range fi.Labels {
				cp.Labels[k] = x
			}
			blobs = append(blobs, &cp)
			return []byte{'J', byte(len(blobs) - 1)}, nil
		}
		return []byte("{}"), nil
	})
	vr.Replace("encoding/json.Unmarshal", func(data []byte, v any) error {
		switch dst := v.(type) {
		case *fuseInfo:
			if len(data) != 2 || data[0] != 'J' || int(data[1]) >= len(blobs) {
				return errors.New("verif: bad json")
			}
			src := blobs[data[1]]
			dst.Root, dst.Mountpoint, dst.Config = src.Root, src.Mountpoint, src.Config
			if src.Labels != nil {
				if dst.Labels == nil {
					dst.Labels = map[string]string{}
				}
				for k, x := range src.Labels { // encoding/json adds to an existing map, it does not replace it
					dst.Labels[k] = x
				}
			}
		case *Config:
		}
		return nil
	})
	vr.Replace("github.com/containerd/stargz-snapshotter/service.NewFileSystem", func(ctx context.Context, root string, config *service.Config, opts ...service.Option) (snapshot.FileSystem, error) {
		if verifFault("newFileSystemFails") {
			return nil, errVerifFault
		}
		b := &verifBackend{id: len(verifBackends), mounted: map[string]map[string]string{}, checks: map[string]int{}}
		verifBackends = append(verifBackends, b)
		return b, nil
	})
	vr.Replace("github.com/moby/sys/mountinfo.GetMounts", func(f mountinfo.FilterFunc) ([]*mountinfo.Info, error) {
		var out []*mountinfo.Info
		for _, mp := range verifMountpoints {
			if verifLiveMounts(mp) > 0 {
				info := &mountinfo.Info{Mountpoint: mp}
				skip, stop := false, false
				if f != nil {
					skip, stop = f(info)
				}
				if !skip {
					out = append(out, info)
				}
				if stop {
					break
				}
			}
		}
		return out, nil
	})
	vr.Stub("os.Remove")

	db := bm.NewDB()
	fm := &Server{status: FuseManagerWaitInit, ms: db, dbOpener: &dbOpener{}, fuseStoreAddr: "/run/store.db"}
	ctx := context.Background()
	initOK := false            // this manager instance has been initialised (it owns a filesystem instance)
	var failedRestore []string // mountpoints recorded but not restored by the last (failed) Init
	labelsOf := map[string]string{}

	recorded := func() []string {
		var r []string
		for _, k := range bm.TopKeys(fm.ms, fuseInfoBucket) {
			r = append(r, string(k))
		}
		return r
	}
	has := func(xs []string, x string) bool {
		for _, y := range xs {
			if y == x {
				return true
			}
		}
		return false
	}
	quiescent := func() {
		rec := recorded()
		for _, mp := range verifMountpoints {
			_, serving := fm.fsMap.Load(mp)
			if serving {
				vr.Assert(has(rec, mp), "every-served-mountpoint-is-recorded")
			} else if has(rec, mp) {
				vr.Assert(has(failedRestore, mp), "recorded-but-not-served-only-after-a-failed-restore")
			}
		}
	}

	if vr.Bool("startInitialised") {
		// most histories of interest start from an initialised manager: do not spend a step on it
		if _, err := fm.Init(ctx, &pb.InitRequest{Root: "/root", Config: []byte("{}")}); err == nil || fm.curFs != nil {
			initOK = true
		}
	}
	for s := 0; s < steps; s++ {
		mp := verifMountpoints[vr.Choice("mountpoint", 2)]
		switch vr.Choice("op", 5) {
		case 0: // Init (first, or re-init by a restarted snapshotter)
			before := recorded()
			for m, l := range labelsOf {
				verifExpectLabel[m] = l // restore mounts with the recorded labels
			}
			_, err := fm.Init(ctx, &pb.InitRequest{Root: "/root", Config: []byte("{}")})
			failedRestore = nil
			if fm.curFs != nil {
				initOK = true // initialised: a filesystem instance exists (a later failing re-init keeps serving)
			}
			if err == nil {
				for _, r := range before {
					_, serving := fm.fsMap.Load(r)
					vr.Assert(serving, "init-serves-every-recorded-mountpoint")
				}
			} else {
				for _, r := range before {
					if _, serving := fm.fsMap.Load(r); !serving {
						failedRestore = append(failedRestore, r)
					}
				}
			}
		case 1: // Mount
			lbl := []string{"x", "xp"}[vr.Choice("label", 2)]
			req := map[string]string{"l": lbl}
			if lbl == "xp" {
				req["p"] = "1" // a label key only some mounts carry (e.g. a prefetch size)
			}
			verifExpectLabel[mp] = lbl
			_, err := fm.Mount(ctx, &pb.MountRequest{Mountpoint: mp, Labels: req})
			if !initOK {
				vr.Assert(err != nil, "requests-before-a-successful-init-fail")
			}
			if err == nil {
				labelsOf[mp] = lbl // the record now holds the labels of this request
			}
		case 2: // Check
			_, err := fm.Check(ctx, &pb.CheckRequest{Mountpoint: mp})
			if !initOK {
				vr.Assert(err != nil, "requests-before-a-successful-init-fail")
			}
		case 3: // Unmount
			_, served := fm.fsMap.Load(mp)
			live := verifLiveMounts(mp) > 0
			_, err := fm.Unmount(ctx, &pb.UnmountRequest{Mountpoint: mp})
			if !initOK {
				vr.Assert(err != nil, "requests-before-a-successful-init-fail")
			} else if !served && !live {
				vr.Assert(err == nil, "unmount-of-unknown-unmounted-mountpoint-succeeds")
			}
			if err == nil {
				delete(labelsOf, mp)
			}
		default: // the manager process restarts: the store file survives, FUSE mounts of the dead process are gone
			fm = &Server{status: FuseManagerWaitInit, ms: bm.Reopen(fm.ms), dbOpener: &dbOpener{}, fuseStoreAddr: "/run/store.db"}
			for _, b := range verifBackends {
				b.mounted = map[string]map[string]string{}
			}
			initOK = false
			failedRestore = recorded() // nothing is served until Init runs
			// restore must re-mount with the recorded labels
		}
		quiescent()
	}
	vr.Reach("end")
}
