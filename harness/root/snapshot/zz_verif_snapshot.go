//go:build verif

package snapshot

import (
	"context"
	"errors"
	"path/filepath"
	"runtime"
	"strconv"
	"strings"

	"github.com/containerd/containerd/v2/core/mount"
	"github.com/containerd/containerd/v2/core/snapshots"
	"github.com/containerd/containerd/v2/core/snapshots/storage"
	"github.com/containerd/continuity/fs"
	"github.com/containerd/errdefs"
	"github.com/moby/sys/mountinfo"

	vb "github.com/containerd/stargz-snapshotter/zzverifbolt"
	vr "github.com/containerd/stargz-snapshotter/zzverifrt"
)

// ---- environment -------------------------------------------------------------------------------------------

type verifEvent struct {
	kind string // mount | unmount | check
	path string
}

// verifBackend: the remote filesystem (FUSE) behind the snapshotter. The kernel mount table is shared by all
// instances (mounts of a dead process stay in the table until unmounted).
type verifBackend struct {
	events      []verifEvent
	live        map[string]map[string]string // mountpoint -> labels, mounts made by this instance
	broken      map[string]bool              // mountpoints whose connectivity check fails from now on
	mountFailed map[string]bool              // mountpoints whose Mount call was failed by an injected fault
}

var (
	verifMountTable map[string]bool
	errVerifFault   = errors.New("verif: injected fault")
	verifFaults     int
)

func verifFault(tag string) bool {
	if verifFaults > 0 && vr.Bool(tag) {
		verifFaults--
		return true
	}
	return false
}

func (b *verifBackend) Mount(ctx context.Context, mountpoint string, labels map[string]string) error {
	if verifFault("mountFails") {
		if b.mountFailed == nil {
			b.mountFailed = map[string]bool{}
		}
		b.mountFailed[mountpoint] = true
		return errVerifFault
	}
	b.events = append(b.events, verifEvent{"mount", mountpoint})
	b.live[mountpoint] = labels
	verifMountTable[mountpoint] = true
	return nil
}
func (b *verifBackend) Check(ctx context.Context, mountpoint string, labels map[string]string) error {
	if b.broken[mountpoint] {
		b.events = append(b.events, verifEvent{"check-failed", mountpoint})
		return errVerifFault
	}
	b.events = append(b.events, verifEvent{"check", mountpoint})
	return nil
}
func (b *verifBackend) Unmount(ctx context.Context, mountpoint string) error {
	b.events = append(b.events, verifEvent{"unmount", mountpoint})
	if _, ok := b.live[mountpoint]; !ok {
		return errors.New("verif: not mounted")
	}
	delete(b.live, mountpoint)
	delete(verifMountTable, mountpoint)
	return nil
}

func verifInstallEnv() (*vr.FSModel, *vb.Model) {
	fsm := vr.InstallFS()
	bm := vb.Install()
	verifMountTable = map[string]bool{}
	vr.EngineOnlyReplay("containerd's metadata store runs over the bbolt model, directories over the file-system model, mounts over the mount-table model")
	vr.Replace("github.com/containerd/continuity/fs.SupportsDType", func(path string) (bool, error) { return true, nil })
	vr.Replace("github.com/containerd/continuity/fs.DiskUsage", func(ctx context.Context, roots ...string) (fs.Usage, error) {
		return fs.Usage{}, nil
	})
	vr.Replace("github.com/containerd/containerd/v2/plugins/snapshots/overlay/overlayutils.NeedsUserXAttr", func(d string) (bool, error) {
		return false, nil
	})
	vr.Replace("github.com/moby/sys/mountinfo.GetMounts", func(f mountinfo.FilterFunc) ([]*mountinfo.Info, error) {
		var out []*mountinfo.Info
		for mp := range verifMountTable {
			out = append(out, &mountinfo.Info{Mountpoint: mp})
		}
		return out, nil
	})
	vr.Replace("syscall.Unmount", func(target string, flags int) error {
		delete(verifMountTable, target)
		return nil
	})
	return fsm, bm
}

const verifRoot = "/var/lib/stargz"

// smoke test of the environment: construct, prepare, commit, view, remove, cleanup without faults
func VerifH_C08_smoke() {
	verifInstallEnv()
	verifFaults = 0
	b := &verifBackend{live: map[string]map[string]string{}}
	ctx := context.Background()
	sn, err := NewSnapshotter(ctx, verifRoot, b)
	vr.Assert(err == nil, "snapshotter-starts")
	_, err = sn.Prepare(ctx, "k1", "")
	vr.Assert(err == nil, "prepare-plain")
	vr.Assert(sn.Commit(ctx, "c1", "k1") == nil, "commit-plain")
	m, err := sn.View(ctx, "v1", "c1")
	vr.Assert(err == nil && len(m) == 1, "view")
	_, err = sn.Prepare(ctx, "k2", "c1", snapshots.WithLabels(map[string]string{targetSnapshotLabel: "c2"}))
	vr.Assert(err != nil, "remote-prepare-reports-already-exists")
	vr.Assert(sn.Remove(ctx, "v1") == nil, "remove")
	vr.Assert(sn.(snapshots.Cleaner).Cleanup(ctx) == nil, "cleanup")
	vr.Reach("end")
}

// ---- shared ghost helpers --------------------------------------------------------------------------------------

type verifWorld struct {
	fsm      *vr.FSModel
	bm       *vb.Model
	backend  *verifBackend
	sn       *snapshotter
	parent   map[string]string // snapshot name/key -> parent name ("" for none), as requested by the harness
	nextKey  int
	inflight []string // names the operation in flight may legitimately consume (commit renames, remove deletes)
}

func (w *verifWorld) idOf(name string) (string, snapshots.Info, bool) {
	ctx, t, err := w.sn.ms.TransactionContext(context.Background(), false)
	if err != nil {
		return "", snapshots.Info{}, false
	}
	defer t.Rollback()
	id, info, _, err := storage.GetInfo(ctx, name)
	if err != nil {
		return "", snapshots.Info{}, false
	}
	return id, info, true
}

func (w *verifWorld) liveIDs() map[string]string {
	ctx, t, err := w.sn.ms.TransactionContext(context.Background(), false)
	if err != nil {
		return nil
	}
	defer t.Rollback()
	ids, err := storage.IDMap(ctx)
	if err != nil {
		return map[string]string{}
	}
	return ids
}

func (w *verifWorld) sortedIDs() []string {
	var ids []string
	for id := range w.liveIDs() {
		ids = append(ids, id)
	}
	for i := 1; i < len(ids); i++ {
		for j := i; j > 0 && ids[j] < ids[j-1]; j-- {
			ids[j], ids[j-1] = ids[j-1], ids[j]
		}
	}
	return ids
}

// chainBroken: some remote snapshot among name and its ancestors has a failing connectivity check
func (w *verifWorld) chainBroken(name string) bool {
	for p := name; p != ""; p = w.parent[p] {
		id, info, ok := w.idOf(p)
		if !ok {
			break
		}
		if _, remote := info.Labels[remoteLabel]; remote && w.backend.broken[w.sn.upperPath(id)] {
			return true
		}
	}
	return false
}

func (w *verifWorld) snapshotDirs() []string {
	return w.fsm.ListDir(filepath.Join(verifRoot, "snapshots"))
}

// invariants that must hold after every operation
func (w *verifWorld) invariants() {
	ids := w.liveIDs()
	// a backend mount never outlives its snapshot directory (unmount happens before the directory is deleted)
	for mp := range w.backend.live {
		dir := filepath.Dir(mp)
		vr.Assert(w.fsm.Dirs[dir], "mounted-directory-still-exists")
	}
	// every committed remote snapshot is mounted exactly at its directory
	for id, name := range ids {
		_, info, ok := w.idOf(name)
		if ok {
			if _, remote := info.Labels[remoteLabel]; remote {
				_, mounted := w.backend.live[w.sn.upperPath(id)]
				vr.Assert(mounted, "remote-snapshot-has-its-backend-mount")
			}
		}
	}
}

var verifNames = []string{"c0", "c1"}

func (w *verifWorld) existing() []string {
	var out []string
	for _, n := range verifNames {
		if _, _, ok := w.idOf(n); ok {
			out = append(out, n)
		}
	}
	return out
}

func (w *verifWorld) pickParent() string {
	ex := w.existing()
	k := vr.Choice("parent", len(ex)+1)
	if k == 0 {
		return ""
	}
	return ex[k-1]
}

func (w *verifWorld) freeName() string {
	for _, n := range verifNames {
		if _, _, ok := w.idOf(n); !ok {
			return n
		}
	}
	return ""
}

// expected lowerdir: upper paths of the ancestors, nearest parent first
func (w *verifWorld) lowerdirOf(parentName string) string {
	var parts []string
	for p := parentName; p != ""; p = w.parent[p] {
		id, _, ok := w.idOf(p)
		if !ok {
			break
		}
		parts = append(parts, w.sn.upperPath(id))
	}
	return strings.Join(parts, ":")
}

func (w *verifWorld) checkMounts(ms []mount.Mount, parentName string) {
	for _, m := range ms {
		if m.Type == "overlay" {
			found := false
			for _, o := range m.Options {
				if strings.HasPrefix(o, "lowerdir=") {
					found = true
					vr.Assert(o == "lowerdir="+w.lowerdirOf(parentName), "lowerdir-lists-nearest-parent-first")
				}
			}
			vr.Assert(found, "overlay-mount-has-lowerdir")
		}
	}
}

// one snapshotter operation chosen nondeterministically; returns a description for acknowledged-state tracking
func (w *verifWorld) step(ctx context.Context) {
	b := w.backend
	// the registry behind some mounted remote layer may become unreachable at any time
	if len(b.live) > 0 && verifFault("layerBreaks") {
		var mps []string
		for _, id := range w.sortedIDs() {
			if _, ok := b.live[w.sn.upperPath(id)]; ok {
				mps = append(mps, w.sn.upperPath(id))
			}
		}
		if len(mps) > 0 {
			if b.broken == nil {
				b.broken = map[string]bool{}
			}
			b.broken[mps[vr.Choice("brokenLayer", len(mps))]] = true
		}
	}
	evBefore := len(b.events)
	failedChecks := func() int {
		n := 0
		for _, e := range b.events[evBefore:] {
			if e.kind == "check-failed" {
				n++
			}
		}
		return n
	}
	switch vr.Choice("op", 7) {
	case 0, 1: // Prepare (op 1: with a target label => remote snapshot attempt)
		key := "a" + strconv.Itoa(w.nextKey)
		w.nextKey++
		parent := w.pickParent()
		var opts []snapshots.Opt
		target := ""
		if vr.Choice("withTarget", 2) == 1 {
			target = w.freeName()
			if target == "" {
				target = verifNames[0]
			}
			opts = append(opts, snapshots.WithLabels(map[string]string{targetSnapshotLabel: target}))
		}
		_, _, existedBefore := w.idOf(target)
		ms, err := w.sn.Prepare(ctx, key, parent, opts...)
		if _, _, ok := w.idOf(key); ok {
			// whatever the outcome, a snapshot left under this key has the requested parent (a remote Prepare whose
			// target already existed leaves the key behind as an active snapshot)
			w.parent[key] = parent
		}
		if target != "" && errdefs.IsAlreadyExists(err) {
			id, info, ok := w.idOf(target)
			vr.Assert(ok && info.Kind == snapshots.KindCommitted, "already-exists-means-target-is-committed")
			if !existedBefore && ok {
				_, remote := info.Labels[remoteLabel]
				vr.Assert(remote, "snapshot-created-by-remote-prepare-is-marked-remote")
				_, mounted := b.live[w.sn.upperPath(id)]
				vr.Assert(mounted, "remote-snapshot-created-with-its-backend-mount")
				w.parent[target] = parent
			}
		} else if err == nil {
			_, info, ok := w.idOf(key)
			vr.Assert(ok && info.Kind == snapshots.KindActive, "fallback-is-an-active-snapshot")
			_, remote := info.Labels[remoteLabel]
			vr.Assert(!remote, "fallback-snapshot-is-not-marked-remote")
			vr.Assert(failedChecks() == 0 && !w.chainBroken(parent), "mounts-never-handed-out-over-an-unavailable-remote-layer")
			w.parent[key] = parent
			w.checkMounts(ms, parent)
		} else if failedChecks() > 0 {
			vr.Assert(errdefs.IsUnavailable(err), "failed-check-reported-as-unavailable")
		}
	case 2: // View
		key := "v" + strconv.Itoa(w.nextKey)
		w.nextKey++
		parent := w.pickParent()
		ms, err := w.sn.View(ctx, key, parent)
		if err == nil {
			vr.Assert(failedChecks() == 0 && !w.chainBroken(parent), "mounts-never-handed-out-over-an-unavailable-remote-layer")
			w.parent[key] = parent
			w.checkMounts(ms, parent)
		} else if failedChecks() > 0 {
			vr.Assert(errdefs.IsUnavailable(err), "failed-check-reported-as-unavailable")
		}
	case 6: // Mounts of the most recent active snapshot or view
		for _, key := range []string{"a" + strconv.Itoa(w.nextKey-1), "v" + strconv.Itoa(w.nextKey-1)} {
			if _, _, ok := w.idOf(key); ok {
				ms, err := w.sn.Mounts(ctx, key)
				if err == nil {
					vr.Assert(failedChecks() == 0 && !w.chainBroken(key), "mounts-never-handed-out-over-an-unavailable-remote-layer")
					w.checkMounts(ms, w.parent[key])
				} else if failedChecks() > 0 {
					vr.Assert(errdefs.IsUnavailable(err), "failed-check-reported-as-unavailable")
				}
			}
		}
	case 3: // Commit the most recent active snapshot under a free name
		name := w.freeName()
		key := "a" + strconv.Itoa(w.nextKey-1)
		if name != "" {
			w.inflight = []string{key}
			if err := w.sn.Commit(ctx, name, key); err == nil {
				w.parent[name] = w.parent[key]
			}
		}
	case 4: // Remove some snapshot
		all := append(w.existing(), "a"+strconv.Itoa(w.nextKey-1))
		victim := all[vr.Choice("victim", len(all))]
		unmBefore := len(b.events)
		w.inflight = []string{victim}
		err := w.sn.Remove(ctx, victim)
		for _, e := range b.events[unmBefore:] {
			if e.kind == "unmount" {
				// a backend mount is unmounted only after its snapshot has been removed
				ids := w.liveIDs()
				_, alive := ids[filepath.Base(filepath.Dir(e.path))]
				vr.Assert(!alive && err == nil, "unmount-only-after-the-snapshot-was-removed")
			}
		}
	default: // Cleanup
		err := w.sn.Cleanup(ctx)
		if err == nil {
			ids := w.liveIDs()
			dirs := w.snapshotDirs()
			for _, d := range dirs {
				_, ok := ids[d]
				vr.Assert(ok, "after-cleanup-only-live-snapshot-directories-remain")
			}
			for id := range ids {
				found := false
				for _, d := range dirs {
					if d == id {
						found = true
					}
				}
				vr.Assert(found, "after-cleanup-every-live-snapshot-keeps-its-directory")
			}
		}
	}
}

func verifNewWorld(ctx context.Context, opts ...Opt) *verifWorld {
	fsm, bm := verifInstallEnv()
	w := &verifWorld{fsm: fsm, bm: bm, backend: &verifBackend{live: map[string]map[string]string{}}, parent: map[string]string{}}
	sn, err := NewSnapshotter(ctx, verifRoot, w.backend, opts...)
	vr.Assert(err == nil, "snapshotter-starts-on-an-empty-root")
	w.sn = sn.(*snapshotter)
	return w
}

// C08: histories of Prepare (with / without target) / View / Commit / Remove / Cleanup with backend faults.
func VerifH_C08_history() {
	steps := 3
	verifFaults = 1
	if vr.Tier() > 0 {
		steps, verifFaults = 4, 1
	}
	ctx := context.Background()
	var opts []Opt
	if vr.Bool("asyncRemove") {
		opts = append(opts, AsynchronousRemove)
	}
	w := verifNewWorld(ctx, opts...)
	for s := 0; s < steps; s++ {
		w.step(ctx)
		w.invariants()
	}
	// Close unmounts everything (also committed remote snapshots)
	if vr.Bool("close") {
		ids := w.liveIDs()
		w.sn.Close()
		// closing unmounts the committed remote snapshots; every remaining mount still has its directory
		for id := range ids {
			if _, still := w.backend.live[w.sn.upperPath(id)]; still {
				vr.Assert(w.fsm.Dirs[filepath.Join(verifRoot, "snapshots", id)], "mounted-directory-still-exists")
			}
		}
	}
	vr.Reach("end")
}

// C09: the process dies at an arbitrary durable effect of an arbitrary history; a new process starts on the
// surviving state (directories, committed metadata, kernel mount table).
func VerifH_C09_crashRestart() {
	steps := 2
	if vr.Tier() > 0 {
		steps = 3
	}
	verifFaults = 0
	ctx := context.Background()
	w := verifNewWorld(ctx)
	acked := map[string]bool{} // snapshots whose creating operation returned before the crash
	ticks := 0
	crashAt := 1 + vr.Choice("crashAt", 14) // the k-th durable effect kills the process (or none if the history is shorter)
	tick := func() {
		ticks++
		if ticks == crashAt {
			vr.Crash()
		}
	}
	crashed := vr.Process(func() {
		w.fsm.OnTick = func(int) { tick() }
		w.bm.OnCommit = tick
		for s := 0; s < steps; s++ {
			w.step(ctx)
			w.inflight = nil
			// acknowledged = what exists once the operation has returned
			for n := range acked {
				delete(acked, n)
			}
			for _, n := range append(w.existing(), "a"+strconv.Itoa(w.nextKey-1)) {
				if _, _, ok := w.idOf(n); ok {
					acked[n] = true
				}
			}
		}
	})
	w.fsm.OnTick, w.bm.OnCommit = nil, nil
	if crashed {
		w.bm.Crash() // uncommitted transactions of the dead process are lost
	}
	// restart on the surviving state with a fresh backend; restore faults are symbolic now
	verifFaults = 1
	allowInvalid, noRestore := vr.Bool("allowInvalidMounts"), vr.Bool("noRestore")
	var opts []Opt
	if allowInvalid {
		opts = append(opts, AllowInvalidMountsOnRestart)
	}
	if noRestore {
		opts = append(opts, NoRestore)
	}
	nb := &verifBackend{live: map[string]map[string]string{}}
	faultsBefore := verifFaults
	sn2, err := NewSnapshotter(ctx, verifRoot, nb, opts...)
	mountFaulted := verifFaults < faultsBefore
	if err != nil {
		vr.Assert(mountFaulted && !allowInvalid && !noRestore, "restart-fails-only-when-a-remote-snapshot-cannot-be-mounted-and-that-is-not-tolerated")
		vr.Reach("restart-failed")
		return
	}
	w.backend, w.sn = nb, sn2.(*snapshotter)
	ids := w.liveIDs()
	if !noRestore {
		// every committed remote snapshot is mounted again at its directory with its stored labels, nothing else is
		remoteCount := 0
		for id, name := range ids {
			_, info, ok := w.idOf(name)
			if ok {
				if _, remote := info.Labels[remoteLabel]; remote {
					remoteCount++
					l, mounted := nb.live[w.sn.upperPath(id)]
					if !(allowInvalid && nb.mountFailed[w.sn.upperPath(id)]) {
						vr.Assert(mounted, "remote-snapshot-remounted-after-restart")
					}
					if mounted {
						vr.Assert(l[targetSnapshotLabel] == info.Labels[targetSnapshotLabel] && len(l) == len(info.Labels), "remounted-with-the-stored-labels")
					}
				}
			}
		}
		vr.Assert(len(nb.live) <= remoteCount, "no-other-directory-is-mounted")
		for mp := range verifMountTable {
			_, ours := nb.live[mp]
			vr.Assert(ours, "stale-mounts-of-the-dead-process-are-gone")
		}
	}
	// everything the dead process had acknowledged is still there and usable
	for n := range acked {
		consumed := false
		for _, c := range w.inflight {
			if c == n {
				consumed = true // the operation that was in flight when the process died commits or removes it
			}
		}
		if consumed {
			continue
		}
		_, statErr := w.sn.Stat(ctx, n)
		vr.Assert(statErr == nil, "acknowledged-snapshot-survives-the-crash")
	}
	// one cleanup pass removes every half-made directory
	vr.Assert(w.sn.Cleanup(ctx) == nil, "cleanup-succeeds-after-restart")
	ids = w.liveIDs()
	for _, d := range w.snapshotDirs() {
		_, ok := ids[d]
		vr.Assert(ok, "cleanup-removes-every-directory-the-dead-process-left-half-made")
	}
	for id := range ids {
		vr.Assert(w.fsm.Dirs[filepath.Join(verifRoot, "snapshots", id)], "live-snapshot-keeps-its-directory")
	}
	vr.Reach("end")
}

// C08/H3 (concurrent callers): containerd's garbage collector calls Cleanup while a client calls Prepare / View /
// Remove. The metadata store's transactions behave as bbolt's do (one writer, snapshot-isolated readers); the
// engine switches threads at every lock operation and before every durable file-system effect. No backend fault is
// injected, so: a plain Prepare succeeds, a Prepare with target reports AlreadyExists with the committed remote
// snapshot mounted, no live snapshot ever loses its directory, and after a final Cleanup the directories on disk
// are exactly those of live snapshots.
func VerifH_C08_cleanupRacesCaller() {
	verifFaults = 0
	ctx := context.Background()
	var opts []Opt
	if vr.Bool("asyncRemove") {
		opts = append(opts, AsynchronousRemove)
	}
	w := verifNewWorld(ctx, opts...)
	w.bm.Concurrent = true
	_, err := w.sn.Prepare(ctx, "a0", "")
	vr.Assert(err == nil, "setup-prepare")
	vr.Assert(w.sn.Commit(ctx, "base", "a0") == nil, "setup-commit")
	_, err = w.sn.Prepare(ctx, "a1", "base")
	vr.Assert(err == nil, "setup-prepare-active")

	switches := 3
	if vr.Tier() > 0 {
		switches = 5
	}
	vr.Interleave(switches)
	w.fsm.OnTick = func(n int) { runtime.Gosched() }
	done := make(chan error, 1)
	go func() { done <- w.sn.Cleanup(ctx) }()

	op := vr.Choice("caller", 4)
	switch op {
	case 0: // plain Prepare
		_, err := w.sn.Prepare(ctx, "k", "base")
		vr.Assert(err == nil, "prepare-succeeds-while-cleanup-runs")
	case 1: // Prepare with target: remote snapshot
		_, err := w.sn.Prepare(ctx, "k", "base", snapshots.WithLabels(map[string]string{targetSnapshotLabel: "t"}))
		vr.Assert(errdefs.IsAlreadyExists(err), "remote-prepare-reports-already-exists-while-cleanup-runs")
		id, info, ok := w.idOf("t")
		vr.Assert(ok && info.Kind == snapshots.KindCommitted, "already-exists-means-target-is-committed")
		if ok {
			_, remote := info.Labels[remoteLabel]
			vr.Assert(remote, "snapshot-created-by-remote-prepare-is-marked-remote")
			_, mounted := w.backend.live[w.sn.upperPath(id)]
			vr.Assert(mounted, "remote-snapshot-created-with-its-backend-mount")
		}
	case 2: // View
		_, err := w.sn.View(ctx, "v", "base")
		vr.Assert(err == nil, "view-succeeds-while-cleanup-runs")
	default: // Remove the active snapshot
		vr.Assert(w.sn.Remove(ctx, "a1") == nil, "remove-succeeds-while-cleanup-runs")
	}
	cerr := <-done
	vr.Assert(cerr == nil, "cleanup-succeeds")
	w.fsm.OnTick = nil

	dirsHave := func(id string) bool {
		for _, d := range w.snapshotDirs() {
			if d == id {
				return true
			}
		}
		return false
	}
	for id := range w.liveIDs() {
		vr.Assert(dirsHave(id), "live-snapshot-keeps-its-directory")
	}
	w.invariants()
	vr.Assert(w.sn.Cleanup(ctx) == nil, "final-cleanup")
	ids := w.liveIDs()
	for _, d := range w.snapshotDirs() {
		_, live := ids[d]
		vr.Assert(live, "after-cleanup-no-directory-without-a-live-snapshot")
	}
	for id := range ids {
		vr.Assert(dirsHave(id), "after-cleanup-every-live-snapshot-keeps-its-directory")
	}
	vr.Reach("end")
}
