//go:build verif

package store

import (
	"context"
	"errors"

	"github.com/containerd/containerd/v2/pkg/reference"
	"github.com/containerd/stargz-snapshotter/fs/layer"
	"github.com/containerd/stargz-snapshotter/fs/remote"
	"github.com/containerd/stargz-snapshotter/fs/source"
	"github.com/containerd/stargz-snapshotter/metadata"
	"github.com/containerd/stargz-snapshotter/util/cacheutil"
	"github.com/containerd/stargz-snapshotter/util/namedmutex"
	fusefs "github.com/hanwen/go-fuse/v2/fs"
	digest "github.com/opencontainers/go-digest"
	ocispec "github.com/opencontainers/image-spec/specs-go/v1"

	vr "github.com/containerd/stargz-snapshotter/zzverifrt"
)

// verifLayer: a resolved layer as the layer resolver hands it out.
type verifLayer struct {
	dgst, toc digest.Digest
	done      int
}

func (l *verifLayer) Info() layer.Info { return layer.Info{Digest: l.dgst, TOCDigest: l.toc} }
func (l *verifLayer) RootNode(baseInode uint32) (fusefs.InodeEmbedder, error) {
	return nil, errors.New("verif: no root node")
}
func (l *verifLayer) Check() error { return nil }
func (l *verifLayer) Refresh(ctx context.Context, hosts source.RegistryHosts, refspec reference.Spec, desc ocispec.Descriptor) error {
	return nil
}
func (l *verifLayer) Verify(tocDigest digest.Digest) error { return nil }
func (l *verifLayer) SkipVerify()                          {}
func (l *verifLayer) Prefetch(prefetchSize int64) error    { return nil }
func (l *verifLayer) ReadAt(p []byte, off int64, opts ...remote.Option) (int, error) {
	return 0, nil
}
func (l *verifLayer) WaitForPrefetchCompletion() error { return nil }
func (l *verifLayer) BackgroundFetch() error           { return nil }
func (l *verifLayer) Done()                            { l.done++ }
func (l *verifLayer) Close() error                     { return nil }

var (
	verifLayerDigests = []digest.Digest{
		"sha256:aaaaaaaaaaaaaaaaaaaaaaaaaaaaaaaaaaaaaaaaaaaaaaaaaaaaaaaaaaaaaaaa",
		"sha256:bbbbbbbbbbbbbbbbbbbbbbbbbbbbbbbbbbbbbbbbbbbbbbbbbbbbbbbbbbbbbbbb",
	}
	verifTOCDigests = []digest.Digest{
		"sha256:1111111111111111111111111111111111111111111111111111111111111111",
		"sha256:2222222222222222222222222222222222222222222222222222222222222222",
	}
	verifUnknownTOC = digest.Digest("sha256:9999999999999999999999999999999999999999999999999999999999999999")
)

// C16: histories of resolve / use / release / lookup over images x layers, with resolution failures. The layer
// resolver is a model (each layer digest has one verified TOC digest; every Resolve hands out a new instance).
func VerifH_C16_useReleaseHistory() {
	steps, nrefs := 4, 1
	if vr.Tier() > 0 {
		steps, nrefs = 5, 1
	}
	refs := []reference.Spec{}
	for _, s := range []string{"docker.io/library/a:1", "docker.io/library/b:1"}[:nrefs] {
		r, err := reference.Parse(s)
		vr.Assert(err == nil, "refs-parse")
		refs = append(refs, r)
	}
	vr.EngineOnlyReplay("layer.Resolver is a concrete struct: its Resolve method is replaced inside the engine and cannot be injected natively")
	var instances []*verifLayer
	resolves := 0
	vr.Replace("(*github.com/containerd/stargz-snapshotter/fs/layer.Resolver).Resolve", func(r *layer.Resolver, ctx context.Context, hosts source.RegistryHosts, refspec reference.Spec, desc ocispec.Descriptor, esgzOpts ...metadata.Option) (layer.Layer, error) {
		resolves++
		if vr.Bool("resolveFails") {
			return nil, errors.New("verif: registry error")
		}
		for k, d := range verifLayerDigests {
			if d == desc.Digest {
				l := &verifLayer{dgst: d, toc: verifTOCDigests[k]}
				instances = append(instances, l)
				return l, nil
			}
		}
		return nil, errors.New("verif: unknown layer")
	})
	vr.Stub("os.RemoveAll")
	pool := &refPool{path: "/pool", refcounter: map[string]*releaser{}}
	pool.cache = cacheutil.NewLRUCache(refCacheEntry)
	m := &LayerManager{
		refPool: pool, noprefetch: true, noBackgroundFetch: true,
		resolveLock: new(namedmutex.NamedMutex),
		layer:       map[string]map[string]layer.Layer{},
		refcounter:  map[string]map[string]int{},
	}
	ctx := context.Background()
	// ghost: uses per (ref, toc)
	uses := map[string]int{}
	key := func(ri, li int) string { return refs[ri].String() + "|" + verifTOCDigests[li].String() }

	for s := 0; s < steps; s++ {
		ri := vr.Choice("ref", nrefs)
		li := vr.Choice("layer", 2)
		switch vr.Choice("op", 4) {
		case 0: // lookup: resolve the layer (as getLayer does for every layer of the image) and fetch it from the cache
			before := resolves
			err := m.resolveLayer(ctx, refs[ri], ocispec.Descriptor{Digest: verifLayerDigests[li]})
			got := m.getCachedLayer(refs[ri], verifTOCDigests[li])
			if err == nil {
				vr.Assert(got != nil && got.Info().TOCDigest == verifTOCDigests[li], "lookup-succeeds-for-a-layer-of-the-image")
			}
			_ = before
		case 1: // use (after a successful lookup only, as the FUSE layer does)
			if m.getCachedLayer(refs[ri], verifTOCDigests[li]) != nil {
				n := m.use(refs[ri], verifTOCDigests[li])
				uses[key(ri, li)]++
				vr.Assert(n == uses[key(ri, li)], "use-count-matches")
			}
		case 2: // release
			n, err := m.release(ctx, refs[ri], verifTOCDigests[li])
			if uses[key(ri, li)] == 0 {
				vr.Assert(err != nil, "release-of-unused-pair-is-an-error")
			} else {
				uses[key(ri, li)]--
				vr.Assert(err == nil && n == uses[key(ri, li)], "release-count-matches-and-never-negative")
			}
		default: // lookup of a digest no layer has
			vr.Assert(m.getCachedLayer(refs[ri], verifUnknownTOC) == nil, "unknown-digest-never-found")
		}
		// a layer with outstanding uses is never released
		for r := 0; r < nrefs; r++ {
			for l := 0; l < 2; l++ {
				if uses[key(r, l)] > 0 {
					got := m.getCachedLayer(refs[r], verifTOCDigests[l])
					vr.Assert(got != nil, "layer-in-use-stays-cached")
					if got != nil {
						vr.Assert(got.(*verifLayer).done == 0, "layer-in-use-never-released")
					}
				}
			}
		}
	}
	// after everything is released, a new lookup of any layer must resolve again and succeed
	for k, n := range uses {
		_ = k
		for ; n > 0; n-- {
		}
	}
	for r := 0; r < nrefs; r++ {
		for l := 0; l < 2; l++ {
			for uses[key(r, l)] > 0 {
				_, err := m.release(ctx, refs[r], verifTOCDigests[l])
				vr.Assert(err == nil, "drain-release-succeeds")
				uses[key(r, l)]--
			}
		}
	}
	vr.Stub("(*github.com/containerd/stargz-snapshotter/fs/layer.Resolver).Resolve")
	vr.Replace("(*github.com/containerd/stargz-snapshotter/fs/layer.Resolver).Resolve", func(r *layer.Resolver, ctx context.Context, hosts source.RegistryHosts, refspec reference.Spec, desc ocispec.Descriptor, esgzOpts ...metadata.Option) (layer.Layer, error) {
		for k, d := range verifLayerDigests {
			if d == desc.Digest {
				return &verifLayer{dgst: d, toc: verifTOCDigests[k]}, nil
			}
		}
		return nil, errors.New("verif: unknown layer")
	})
	ri, li := vr.Choice("finalref", nrefs), vr.Choice("finallayer", 2)
	err := m.resolveLayer(ctx, refs[ri], ocispec.Descriptor{Digest: verifLayerDigests[li]})
	if err == nil {
		vr.Assert(m.getCachedLayer(refs[ri], verifTOCDigests[li]) != nil, "lookup-after-release-to-zero-resolves-again")
	}
	vr.Reach("end")
}

// verifImages: the registry model of the getLayer harness. Two references of one repository (same name, different
// tags) with different layer sets; layer B is shared.
//
//	a:1 = [A (toc 1), B (toc 2)]      a:2 = [B (toc 2), C (toc 3)]
var verifLayerC = digest.Digest("sha256:cccccccccccccccccccccccccccccccccccccccccccccccccccccccccccccccc")
var verifTOCC = digest.Digest("sha256:3333333333333333333333333333333333333333333333333333333333333333")

type verifStoredRef struct {
	manifest ocispec.Manifest
	config   ocispec.Image
}

// C16/H2: lookups through the real getLayer (goroutine per layer, select over result/error/timeout/all-done
// channels), the real refPool.loadRef / use / release / LRU and the real release bookkeeping, over histories of
// lookup+use / release on two references of one repository. Layers that cannot be resolved (registry error, not
// eStargz) are a fixed symbolic subset per path. Oracle: a lookup succeeds iff the image has a resolvable layer
// with that TOC digest - whatever was used and released before, whatever the sibling layers do, whichever order
// the goroutines run in - and a lookup of any other digest fails.
func VerifH_C16_getLayerLookup() {
	steps := 4
	var refs []reference.Spec
	for _, s := range []string{"docker.io/library/a:1", "docker.io/library/a:2"} {
		r, err := reference.Parse(s)
		vr.Assert(err == nil, "refs-parse")
		refs = append(refs, r)
	}
	layers := []digest.Digest{verifLayerDigests[0], verifLayerDigests[1], verifLayerC}
	tocs := []digest.Digest{verifTOCDigests[0], verifTOCDigests[1], verifTOCC}
	images := [][]int{{0, 1}, {1, 2}}
	// unresolvable layers: fixed per path (a registry that answers differently from one attempt to the next is
	// outside the claim: resolution results are memoised by design until the image is released)
	broken := []bool{false, false, false}
	if b := vr.Choice("unresolvable-layer", 4); b < 3 {
		broken[b] = true
	}

	vr.EngineOnlyReplay("layer.Resolver is a concrete struct and refPool talks to a registry: both are replaced inside the engine and cannot be injected natively")
	vr.Replace("(*github.com/containerd/stargz-snapshotter/fs/layer.Resolver).Resolve", func(r *layer.Resolver, ctx context.Context, hosts source.RegistryHosts, refspec reference.Spec, desc ocispec.Descriptor, esgzOpts ...metadata.Option) (layer.Layer, error) {
		for k, d := range layers {
			if d == desc.Digest {
				if broken[k] {
					return nil, errors.New("verif: registry error")
				}
				return &verifLayer{dgst: d, toc: tocs[k]}, nil
			}
		}
		return nil, errors.New("verif: unknown layer")
	})
	fetches := 0
	vr.Replace("(*github.com/containerd/stargz-snapshotter/store.refPool).fetchManifestAndConfig", func(p *refPool, ctx context.Context, refspec reference.Spec) (ocispec.Manifest, ocispec.Image, error) {
		fetches++
		for ri, r := range refs {
			if r.String() == refspec.String() {
				var m ocispec.Manifest
				var c ocispec.Image
				for _, li := range images[ri] {
					m.Layers = append(m.Layers, ocispec.Descriptor{Digest: layers[li]})
					c.RootFS.DiffIDs = append(c.RootFS.DiffIDs, layers[li])
				}
				return m, c, nil
			}
		}
		return ocispec.Manifest{}, ocispec.Image{}, errors.New("verif: unknown image")
	})
	// the pool's files: a path-keyed store; the paths are computed by the real manifestFile/configFile/metadataDir
	files := map[string]verifStoredRef{}
	vr.Replace("(*github.com/containerd/stargz-snapshotter/store.refPool).readManifestAndConfig", func(p *refPool, refspec reference.Spec) (ocispec.Manifest, ocispec.Image, error) {
		mf, ok := files[p.manifestFile(refspec)]
		if !ok {
			return ocispec.Manifest{}, ocispec.Image{}, errors.New("verif: no such file")
		}
		cf, ok := files[p.configFile(refspec)]
		if !ok {
			return ocispec.Manifest{}, ocispec.Image{}, errors.New("verif: no such file")
		}
		return mf.manifest, cf.config, nil
	})
	vr.Replace("(*github.com/containerd/stargz-snapshotter/store.refPool).writeManifestAndConfig", func(p *refPool, refspec reference.Spec, manifest ocispec.Manifest, config ocispec.Image) error {
		files[p.manifestFile(refspec)] = verifStoredRef{manifest: manifest}
		files[p.configFile(refspec)] = verifStoredRef{config: config}
		return nil
	})
	pool := &refPool{path: "/pool", refcounter: map[string]*releaser{}}
	pool.cache = cacheutil.NewLRUCache(refCacheEntry)
	pool.cache.OnEvicted = func(key string, value any) {
		dir := pool.metadataDir(value.(reference.Spec))
		for p := range files {
			if len(p) > len(dir) && p[:len(dir)] == dir {
				delete(files, p)
			}
		}
	}
	m := &LayerManager{
		refPool: pool, noprefetch: true, noBackgroundFetch: true,
		resolveLock: new(namedmutex.NamedMutex),
		layer:       map[string]map[string]layer.Layer{},
		refcounter:  map[string]map[string]int{},
	}
	ctx := context.Background()
	uses := map[string]int{}
	key := func(ri, ti int) string { return refs[ri].String() + "|" + tocs[ti].String() }
	// Engine-scheduled interleavings of getLayer's goroutines (vr.Interleave) were tried for a thorough tier: two
	// operations with <=3 switches already exceed 900 k paths in 8 minutes (no finding); not registered. The select in
	// getLayer still chooses among all ready channels (result / error / all-done), which is what C16-m1 needs.
	for s := 0; s < steps; s++ {
		// the operations possible now: 8 lookups, plus one release per pair in use
		type pair struct{ ri, ti int }
		var inUse []pair
		for r := 0; r < 2; r++ {
			for t := 0; t < 3; t++ {
				if uses[key(r, t)] > 0 {
					inUse = append(inUse, pair{r, t})
				}
			}
		}
		op := vr.Choice("op", 8+len(inUse))
		if op >= 8 {
			p := inUse[op-8]
			n, err := m.release(ctx, refs[p.ri], tocs[p.ti])
			uses[key(p.ri, p.ti)]--
			vr.Assert(err == nil && n == uses[key(p.ri, p.ti)], "release-count-matches-and-never-negative")
			continue
		}
		ri, ti := op/4, op%4 // toc 3 = a digest no layer has
		want := verifUnknownTOC
		expect := false
		if ti < 3 {
			want = tocs[ti]
			for _, li := range images[ri] {
				if li == ti && !broken[li] {
					expect = true
				}
			}
		}
		l, err := m.getLayer(ctx, refs[ri], want)
		if expect {
			vr.Assert(err == nil, "lookup-succeeds-for-a-resolvable-layer-of-the-image")
			if err == nil {
				vr.Assert(l != nil && l.Info().TOCDigest == want, "lookup-returns-the-layer-with-that-toc")
				vr.Assert(l.(*verifLayer).done == 0, "lookup-never-returns-a-released-layer")
				n := m.use(refs[ri], want)
				uses[key(ri, ti)]++
				vr.Assert(n == uses[key(ri, ti)], "use-count-matches")
			}
		} else {
			vr.Assert(err != nil, "lookup-of-any-other-digest-fails")
		}
		for r := 0; r < 2; r++ {
			for t := 0; t < 3; t++ {
				if uses[key(r, t)] > 0 {
					got := m.getCachedLayer(refs[r], tocs[t])
					vr.Assert(got != nil && got.(*verifLayer).done == 0, "layer-in-use-never-released")
				}
			}
		}
	}
	vr.Reach("end")
}
