//go:build verif

package store

import (
	"context"
	"errors"

	"github.com/containerd/containerd/v2/pkg/reference"
	"github.com/containerd/stargz-snapshotter/fs/layer"
	"github.com/containerd/stargz-snapshotter/fs/remote"
	"github.com/containerd/stargz-snapshotter/fs/source"
	"github.com/containerd/stargz-snapshotter/metadata"
	"github.com/containerd/stargz-snapshotter/util/cacheutil"
	"github.com/containerd/stargz-snapshotter/util/namedmutex"
	fusefs "github.com/hanwen/go-fuse/v2/fs"
	digest "github.com/opencontainers/go-digest"
	ocispec "github.com/opencontainers/image-spec/specs-go/v1"

	vr "github.com/containerd/stargz-snapshotter/zzverifrt"
)

// verifLayer: a resolved layer as the layer resolver hands it out.
type verifLayer struct {
	dgst, toc digest.Digest
	done      int
}

func (l *verifLayer) Info() layer.Info { return layer.Info{Digest: l.dgst, TOCDigest: l.toc} }
func (l *verifLayer) RootNode(baseInode uint32) (fusefs.InodeEmbedder, error) {
	return nil, errors.New("verif: no root node")
}
func (l *verifLayer) Check() error { return nil }
func (l *verifLayer) Refresh(ctx context.Context, hosts source.RegistryHosts, refspec reference.Spec, desc ocispec.Descriptor) error {
	return nil
}
func (l *verifLayer) Verify(tocDigest digest.Digest) error { return nil }
func (l *verifLayer) SkipVerify()                           {}
func (l *verifLayer) Prefetch(prefetchSize int64) error     { return nil }
func (l *verifLayer) ReadAt(p []byte, off int64, opts ...remote.Option) (int, error) {
	return 0, nil
}
func (l *verifLayer) WaitForPrefetchCompletion() error { return nil }
func (l *verifLayer) BackgroundFetch() error           { return nil }
func (l *verifLayer) Done()                            { l.done++ }
func (l *verifLayer) Close() error                     { return nil }

var (
	verifLayerDigests = []digest.Digest{
		"sha256:aaaaaaaaaaaaaaaaaaaaaaaaaaaaaaaaaaaaaaaaaaaaaaaaaaaaaaaaaaaaaaaa",
		"sha256:bbbbbbbbbbbbbbbbbbbbbbbbbbbbbbbbbbbbbbbbbbbbbbbbbbbbbbbbbbbbbbbb",
	}
	verifTOCDigests = []digest.Digest{
		"sha256:1111111111111111111111111111111111111111111111111111111111111111",
		"sha256:2222222222222222222222222222222222222222222222222222222222222222",
	}
	verifUnknownTOC = digest.Digest("sha256:9999999999999999999999999999999999999999999999999999999999999999")
)

// C16: histories of resolve / use / release / lookup over images x layers, with resolution failures. The layer
// resolver is a model (each layer digest has one verified TOC digest; every Resolve hands out a new instance).
func VerifH_C16_useReleaseHistory() {
	steps, nrefs := 4, 1
	if vr.Tier() > 0 {
		steps, nrefs = 5, 2
	}
	refs := []reference.Spec{}
	for _, s := range []string{"docker.io/library/a:1", "docker.io/library/b:1"}[:nrefs] {
		r, err := reference.Parse(s)
		vr.Assert(err == nil, "refs-parse")
		refs = append(refs, r)
	}
	vr.EngineOnlyReplay("layer.Resolver is a concrete struct: its Resolve method is replaced inside the engine and cannot be injected natively")
	var instances []*verifLayer
	resolves := 0
	vr.Replace("(*github.com/containerd/stargz-snapshotter/fs/layer.Resolver).Resolve", func(r *layer.Resolver, ctx context.Context, hosts source.RegistryHosts, refspec reference.Spec, desc ocispec.Descriptor, esgzOpts ...metadata.Option) (layer.Layer, error) {
		resolves++
		if vr.Bool("resolveFails") {
			return nil, errors.New("verif: registry error")
		}
		for k, d := range verifLayerDigests {
			if d == desc.Digest {
				l := &verifLayer{dgst: d, toc: verifTOCDigests[k]}
				instances = append(instances, l)
				return l, nil
			}
		}
		return nil, errors.New("verif: unknown layer")
	})
	vr.Stub("os.RemoveAll")
	pool := &refPool{path: "/pool", refcounter: map[string]*releaser{}}
	pool.cache = cacheutil.NewLRUCache(refCacheEntry)
	m := &LayerManager{
		refPool: pool, noprefetch: true, noBackgroundFetch: true,
		resolveLock: new(namedmutex.NamedMutex),
		layer:       map[string]map[string]layer.Layer{},
		refcounter:  map[string]map[string]int{},
	}
	ctx := context.Background()
	// ghost: uses per (ref, toc)
	uses := map[string]int{}
	key := func(ri, li int) string { return refs[ri].String() + "|" + verifTOCDigests[li].String() }

	for s := 0; s < steps; s++ {
		ri := vr.Choice("ref", nrefs)
		li := vr.Choice("layer", 2)
		switch vr.Choice("op", 4) {
		case 0: // lookup: resolve the layer (as getLayer does for every layer of the image) and fetch it from the cache
			before := resolves
			err := m.resolveLayer(ctx, refs[ri], ocispec.Descriptor{Digest: verifLayerDigests[li]})
			got := m.getCachedLayer(refs[ri], verifTOCDigests[li])
			if err == nil {
				vr.Assert(got != nil && got.Info().TOCDigest == verifTOCDigests[li], "lookup-succeeds-for-a-layer-of-the-image")
			}
			_ = before
		case 1: // use (after a successful lookup only, as the FUSE layer does)
			if m.getCachedLayer(refs[ri], verifTOCDigests[li]) != nil {
				n := m.use(refs[ri], verifTOCDigests[li])
				uses[key(ri, li)]++
				vr.Assert(n == uses[key(ri, li)], "use-count-matches")
			}
		case 2: // release
			n, err := m.release(ctx, refs[ri], verifTOCDigests[li])
			if uses[key(ri, li)] == 0 {
				vr.Assert(err != nil, "release-of-unused-pair-is-an-error")
			} else {
				uses[key(ri, li)]--
				vr.Assert(err == nil && n == uses[key(ri, li)], "release-count-matches-and-never-negative")
			}
		default: // lookup of a digest no layer has
			vr.Assert(m.getCachedLayer(refs[ri], verifUnknownTOC) == nil, "unknown-digest-never-found")
		}
		// a layer with outstanding uses is never released
		for r := 0; r < nrefs; r++ {
			for l := 0; l < 2; l++ {
				if uses[key(r, l)] > 0 {
					got := m.getCachedLayer(refs[r], verifTOCDigests[l])
					vr.Assert(got != nil, "layer-in-use-stays-cached")
					if got != nil {
						vr.Assert(got.(*verifLayer).done == 0, "layer-in-use-never-released")
					}
				}
			}
		}
	}
	// after everything is released, a new lookup of any layer must resolve again and succeed
	for k, n := range uses {
		_ = k
		for ; n > 0; n-- {
		}
	}
	for r := 0; r < nrefs; r++ {
		for l := 0; l < 2; l++ {
			for uses[key(r, l)] > 0 {
				_, err := m.release(ctx, refs[r], verifTOCDigests[l])
				vr.Assert(err == nil, "drain-release-succeeds")
				uses[key(r, l)]--
			}
		}
	}
	vr.Stub("(*github.com/containerd/stargz-snapshotter/fs/layer.Resolver).Resolve")
	vr.Replace("(*github.com/containerd/stargz-snapshotter/fs/layer.Resolver).Resolve", func(r *layer.Resolver, ctx context.Context, hosts source.RegistryHosts, refspec reference.Spec, desc ocispec.Descriptor, esgzOpts ...metadata.Option) (layer.Layer, error) {
		for k, d := range verifLayerDigests {
			if d == desc.Digest {
				return &verifLayer{dgst: d, toc: verifTOCDigests[k]}, nil
			}
		}
		return nil, errors.New("verif: unknown layer")
	})
	ri, li := vr.Choice("finalref", nrefs), vr.Choice("finallayer", 2)
	err := m.resolveLayer(ctx, refs[ri], ocispec.Descriptor{Digest: verifLayerDigests[li]})
	if err == nil {
		vr.Assert(m.getCachedLayer(refs[ri], verifTOCDigests[li]) != nil, "lookup-after-release-to-zero-resolves-again")
	}
	vr.Reach("end")
}
