// Package zzverifbolt: bbolt model for harnesses (engine only). Nested ordered key -> value maps; a transaction
// (DB.Update / DB.View callback) is atomic: one crash tick at commit; ForEach visits keys in byte order.
package zzverifbolt

import (
	"bytes"
	"errors"
	"os"
	"sync"

	bolt "go.etcd.io/bbolt"

	vr "github.com/containerd/stargz-snapshotter/zzverifrt"
)

type Bkt struct {
	Keys [][]byte
	Vals [][]byte
	Subs []*bolt.Bucket
}

type Model struct {
	Files  map[string]*bolt.Bucket // database files by path (durable): root bucket of each
	Seqs   map[*bolt.Bucket]uint64
	txs    map[*bolt.Tx]*txState
	curs   map[*bolt.Cursor]*bolt.Bucket
	Bkts   map[*bolt.Bucket]*Bkt
	Roots  map[*bolt.DB]*bolt.Bucket // top-level namespace of each DB as a bucket
	Closed map[*bolt.DB]bool
	txDB   map[*bolt.Tx]*bolt.DB
	// fault injection: the next Update fails (returns an error without applying anything)
	FailUpdate func() bool
	OnCommit   func()
	// Concurrent: explicit transactions behave as bbolt's do under concurrent callers: one writable transaction per
	// database at a time (Begin(true) blocks), and a read-only transaction sees the state committed when it began
	// (a private copy), never the uncommitted writes of a concurrent writer.
	Concurrent bool
	wmu        map[*bolt.Bucket]*sync.Mutex
	writer     map[*bolt.Bucket]*txState
	view       map[*bolt.Tx]*bolt.Bucket
}

// freshCopy returns a private copy (new bucket identities) of the committed content of b: if a writable
// transaction w is open, the content saved when w began.
func (m *Model) freshCopy(b *bolt.Bucket, w *txState) *bolt.Bucket {
	src := m.Bkts[b]
	if w != nil && !w.done {
		if s, ok := w.saved[b]; ok {
			src = s
		}
	}
	nb := m.NewBucket()
	c := m.Bkts[nb]
	for i := range src.Keys {
		sub := src.Subs[i]
		if sub != nil {
			sub = m.freshCopy(sub, w)
		}
		c.Keys, c.Vals, c.Subs = append(c.Keys, src.Keys[i]), append(c.Vals, src.Vals[i]), append(c.Subs, sub)
	}
	return nb
}

func (m *Model) endWriter(st *txState) {
	if m.Concurrent && st.writable {
		root := m.Roots[st.db]
		delete(m.writer, root)
		m.wmu[root].Unlock()
	}
}

type txState struct {
	db       *bolt.DB
	writable bool
	saved    map[*bolt.Bucket]*Bkt
	savedSeq map[*bolt.Bucket]uint64
	done     bool
}

var M *Model

func (m *Model) NewBucket() *bolt.Bucket {
	b := &bolt.Bucket{}
	m.Bkts[b] = &Bkt{}
	return b
}

func (k *Bkt) find(key []byte) int {
	for i := range k.Keys {
		if bytes.Equal(k.Keys[i], key) {
			return i
		}
	}
	return -1
}

// NewDB returns a handle of a new empty database.
func (m *Model) NewDB() *bolt.DB {
	db := &bolt.DB{}
	m.Roots[db] = m.NewBucket()
	return db
}

// Reopen returns a new handle on the same stored data (process restart).
func (m *Model) Reopen(old *bolt.DB) *bolt.DB {
	db := &bolt.DB{}
	m.Roots[db] = m.Roots[old]
	return db
}

// Crash discards every open transaction (the process died): uncommitted writes are lost.
func (m *Model) Crash() {
	for _, st := range m.txs {
		if !st.done && st.writable {
			for b, k := range st.saved {
				m.Bkts[b] = k
			}
			m.Seqs = st.savedSeq
		}
		st.done = true
	}
}

// TopKeys returns the keys of a top-level bucket of db (nil if the bucket does not exist).
func (m *Model) TopKeys(db *bolt.DB, bucket []byte) [][]byte {
	root := m.Bkts[m.Roots[db]]
	i := root.find(bucket)
	if i < 0 || root.Subs[i] == nil {
		return nil
	}
	return m.Bkts[root.Subs[i]].Keys
}

func (m *Model) clone(b *bolt.Bucket, into map[*bolt.Bucket]*Bkt) {
	src := m.Bkts[b]
	c := &Bkt{}
	for i := range src.Keys {
		c.Keys = append(c.Keys, src.Keys[i])
		c.Vals = append(c.Vals, src.Vals[i])
		c.Subs = append(c.Subs, src.Subs[i])
		if src.Subs[i] != nil {
			m.clone(src.Subs[i], into)
		}
	}
	into[b] = c
}

func Install() *Model {
	m := &Model{Bkts: map[*bolt.Bucket]*Bkt{}, Roots: map[*bolt.DB]*bolt.Bucket{}, Closed: map[*bolt.DB]bool{}, txDB: map[*bolt.Tx]*bolt.DB{},
		Files: map[string]*bolt.Bucket{}, Seqs: map[*bolt.Bucket]uint64{}, txs: map[*bolt.Tx]*txState{}, curs: map[*bolt.Cursor]*bolt.Bucket{},
		wmu: map[*bolt.Bucket]*sync.Mutex{}, writer: map[*bolt.Bucket]*txState{}, view: map[*bolt.Tx]*bolt.Bucket{}}
	M = m
	put := func(b *bolt.Bucket, k, v []byte) error {
		bk := m.Bkts[b]
		if len(k) == 0 {
			return errors.New("key required")
		}
		if i := bk.find(k); i >= 0 {
			if bk.Subs[i] != nil {
				return errors.New("incompatible value")
			}
			bk.Vals[i] = append([]byte{}, v...)
			return nil
		}
		bk.Keys, bk.Vals, bk.Subs = append(bk.Keys, append([]byte(nil), k...)), append(bk.Vals, append([]byte{}, v...)), append(bk.Subs, nil)
		return nil
	}
	getSub := func(b *bolt.Bucket, k []byte) *bolt.Bucket {
		bk := m.Bkts[b]
		if i := bk.find(k); i >= 0 {
			return bk.Subs[i]
		}
		return nil
	}
	createSub := func(b *bolt.Bucket, k []byte, ifNotExists bool) (*bolt.Bucket, error) {
		bk := m.Bkts[b]
		if i := bk.find(k); i >= 0 {
			if bk.Subs[i] != nil && ifNotExists {
				return bk.Subs[i], nil
			}
			return nil, errors.New("bucket already exists")
		}
		nb := m.NewBucket()
		bk.Keys, bk.Vals, bk.Subs = append(bk.Keys, append([]byte(nil), k...)), append(bk.Vals, nil), append(bk.Subs, nb)
		return nb, nil
	}
	del := func(b *bolt.Bucket, k []byte, wantBucket bool) error {
		bk := m.Bkts[b]
		i := bk.find(k)
		if i < 0 {
			if wantBucket {
				return errors.New("bucket not found")
			}
			return nil
		}
		if (bk.Subs[i] != nil) != wantBucket {
			return errors.New("incompatible value")
		}
		bk.Keys = append(bk.Keys[:i:i], bk.Keys[i+1:]...)
		bk.Vals = append(bk.Vals[:i:i], bk.Vals[i+1:]...)
		bk.Subs = append(bk.Subs[:i:i], bk.Subs[i+1:]...)
		return nil
	}
	vr.Replace("(*go.etcd.io/bbolt.Bucket).Put", put)
	vr.Replace("(*go.etcd.io/bbolt.Bucket).Get", func(b *bolt.Bucket, k []byte) []byte {
		bk := m.Bkts[b]
		if i := bk.find(k); i >= 0 && bk.Subs[i] == nil {
			return bk.Vals[i]
		}
		return nil
	})
	vr.Replace("(*go.etcd.io/bbolt.Bucket).Delete", func(b *bolt.Bucket, k []byte) error { return del(b, k, false) })
	vr.Replace("(*go.etcd.io/bbolt.Bucket).Bucket", getSub)
	vr.Replace("(*go.etcd.io/bbolt.Bucket).CreateBucket", func(b *bolt.Bucket, k []byte) (*bolt.Bucket, error) { return createSub(b, k, false) })
	vr.Replace("(*go.etcd.io/bbolt.Bucket).CreateBucketIfNotExists", func(b *bolt.Bucket, k []byte) (*bolt.Bucket, error) {
		return createSub(b, k, true)
	})
	vr.Replace("(*go.etcd.io/bbolt.Bucket).DeleteBucket", func(b *bolt.Bucket, k []byte) error { return del(b, k, true) })
	vr.Replace("(*go.etcd.io/bbolt.Bucket).ForEach", func(b *bolt.Bucket, fn func(k, v []byte) error) error {
		bk := m.Bkts[b]
		order := make([]int, len(bk.Keys))
		for i := range order {
			order[i] = i
		}
		for i := 1; i < len(order); i++ {
			for j := i; j > 0 && bytes.Compare(bk.Keys[order[j]], bk.Keys[order[j-1]]) < 0; j-- {
				order[j], order[j-1] = order[j-1], order[j]
			}
		}
		keys, vals := bk.Keys, bk.Vals
		for _, i := range order {
			if err := fn(keys[i], vals[i]); err != nil {
				return err
			}
		}
		return nil
	})
	vr.Replace("(*go.etcd.io/bbolt.Tx).Bucket", func(tx *bolt.Tx, k []byte) *bolt.Bucket {
		if v := m.view[tx]; v != nil {
			return getSub(v, k)
		}
		return getSub(m.Roots[m.txDB[tx]], k)
	})
	vr.Replace("(*go.etcd.io/bbolt.Tx).CreateBucketIfNotExists", func(tx *bolt.Tx, k []byte) (*bolt.Bucket, error) {
		return createSub(m.Roots[m.txDB[tx]], k, true)
	})
	vr.Replace("(*go.etcd.io/bbolt.Tx).CreateBucket", func(tx *bolt.Tx, k []byte) (*bolt.Bucket, error) {
		return createSub(m.Roots[m.txDB[tx]], k, false)
	})
	vr.Replace("(*go.etcd.io/bbolt.Tx).DeleteBucket", func(tx *bolt.Tx, k []byte) error { return del(m.Roots[m.txDB[tx]], k, true) })
	update := func(db *bolt.DB, fn func(*bolt.Tx) error) error {
		if m.Closed[db] {
			return errors.New("database not open")
		}
		if m.FailUpdate != nil && m.FailUpdate() {
			return errors.New("verif: bolt update failed")
		}
		// transactional: keep a copy to roll back to if fn fails
		saved := map[*bolt.Bucket]*Bkt{}
		m.clone(m.Roots[db], saved)
		tx := &bolt.Tx{}
		m.txDB[tx] = db
		if err := fn(tx); err != nil {
			for b, k := range saved {
				m.Bkts[b] = k
			}
			return err
		}
		if m.OnCommit != nil {
			m.OnCommit()
		}
		return nil
	}
	vr.Replace("(*go.etcd.io/bbolt.DB).Update", update)
	// bbolt's Batch: a function that fails inside a batch is run again on its own (DB.Update) and the result of that
	// second run is what the caller gets - the function "must be idempotent".
	vr.Replace("(*go.etcd.io/bbolt.DB).Batch", func(db *bolt.DB, fn func(*bolt.Tx) error) error {
		if err := update(db, fn); err != nil {
			return update(db, fn)
		}
		return nil
	})
	vr.Replace("(*go.etcd.io/bbolt.DB).View", func(db *bolt.DB, fn func(*bolt.Tx) error) error {
		if m.Closed[db] {
			return errors.New("database not open")
		}
		tx := &bolt.Tx{}
		m.txDB[tx] = db
		return fn(tx)
	})
	// explicit transactions (containerd's snapshot metadata store): a writable transaction becomes durable at Commit
	// (one crash tick) and is discarded at Rollback
	vr.Replace("go.etcd.io/bbolt.Open", func(path string, mode os.FileMode, options *bolt.Options) (*bolt.DB, error) {
		db := &bolt.DB{}
		root, ok := m.Files[path]
		if !ok {
			root = m.NewBucket()
			m.Files[path] = root
		}
		m.Roots[db] = root
		return db, nil
	})
	vr.Replace("(*go.etcd.io/bbolt.DB).Begin", func(db *bolt.DB, writable bool) (*bolt.Tx, error) {
		if m.Closed[db] {
			return nil, errors.New("database not open")
		}
		if m.Concurrent && writable {
			root := m.Roots[db]
			if m.wmu[root] == nil {
				m.wmu[root] = new(sync.Mutex)
			}
			m.wmu[root].Lock()
		}
		tx := &bolt.Tx{}
		m.txDB[tx] = db
		st := &txState{db: db, writable: writable}
		if m.Concurrent {
			if writable {
				m.writer[m.Roots[db]] = st
			} else {
				m.view[tx] = m.freshCopy(m.Roots[db], m.writer[m.Roots[db]])
			}
		}
		if writable {
			st.saved = map[*bolt.Bucket]*Bkt{}
			m.clone(m.Roots[db], st.saved)
			st.savedSeq = map[*bolt.Bucket]uint64{}
			for b, v := range m.Seqs {
				st.savedSeq[b] = v
			}
		}
		m.txs[tx] = st
		return tx, nil
	})
	rollback := func(tx *bolt.Tx) error {
		st := m.txs[tx]
		if st == nil || st.done {
			return errors.New("tx closed")
		}
		st.done = true
		if st.writable {
			for b, k := range st.saved {
				m.Bkts[b] = k
			}
			m.Seqs = st.savedSeq
		}
		m.endWriter(st)
		return nil
	}
	vr.Replace("(*go.etcd.io/bbolt.Tx).Rollback", rollback)
	vr.Replace("(*go.etcd.io/bbolt.Tx).Commit", func(tx *bolt.Tx) error {
		st := m.txs[tx]
		if st == nil || st.done {
			return errors.New("tx closed")
		}
		if !st.writable {
			return errors.New("tx not writable")
		}
		if m.FailUpdate != nil && m.FailUpdate() {
			rollback(tx)
			return errors.New("verif: bolt commit failed")
		}
		if m.OnCommit != nil {
			m.OnCommit() // crash tick: dying here leaves the transaction uncommitted
		}
		st.done = true
		m.endWriter(st)
		return nil
	})
	vr.Replace("(*go.etcd.io/bbolt.Tx).Writable", func(tx *bolt.Tx) bool { return m.txs[tx] != nil && m.txs[tx].writable })
	vr.Replace("(*go.etcd.io/bbolt.Bucket).NextSequence", func(b *bolt.Bucket) (uint64, error) {
		m.Seqs[b]++
		return m.Seqs[b], nil
	})
	vr.Replace("(*go.etcd.io/bbolt.Bucket).Cursor", func(b *bolt.Bucket) *bolt.Cursor {
		c := &bolt.Cursor{}
		m.curs[c] = b
		return c
	})
	vr.Replace("(*go.etcd.io/bbolt.Cursor).Seek", func(c *bolt.Cursor, seek []byte) ([]byte, []byte) {
		bk := m.Bkts[m.curs[c]]
		best := -1
		for i := range bk.Keys {
			if bytes.Compare(bk.Keys[i], seek) >= 0 && (best < 0 || bytes.Compare(bk.Keys[i], bk.Keys[best]) < 0) {
				best = i
			}
		}
		if best < 0 {
			return nil, nil
		}
		return bk.Keys[best], bk.Vals[best]
	})
	vr.Replace("(*go.etcd.io/bbolt.DB).Close", func(db *bolt.DB) error {
		m.Closed[db] = true
		return nil
	})
	return m
}
