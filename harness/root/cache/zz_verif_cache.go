//go:build verif

package cache

import (
	"bytes"
	"os"

	vr "github.com/containerd/stargz-snapshotter/zzverifrt"
)

var verifKeys = []string{"aa1", "bb2", "cc3"}

type verifWriterH struct {
	key    string
	w      Writer
	data   []byte
	closed bool
}

type verifReaderH struct {
	key string
	r   Reader
}

// C11/H2: histories over the directory-backed chunk cache with both LRUs at capacity 1 (constant eviction), every
// option combination, background persistence running at any later operation boundary, and a sync.Pool that hands
// recycled buffers back (LIFO). Whatever a successful Get + ReadAt returns is exactly a byte string that some writer
// committed under that key.
func VerifH_C11_dircacheHistory() {
	steps, nkeys, fadv := 4, 2, false
	if vr.Tier() > 0 {
		steps, nkeys, fadv = 3, 2, vr.Bool("fadv") // plus Direct() and zero-length values per operation
	}
	root := "/cache"
	if vr.Native() {
		d, err := os.MkdirTemp("", "verifcache")
		if err != nil {
			panic(err)
		}
		root = d
	} else {
		vr.InstallFS()
		vr.Stub("golang.org/x/sys/unix.Fadvise")
	}
	cfg := DirectoryCacheConfig{MaxLRUCacheEntry: 1, MaxCacheFds: 1, SyncAdd: vr.Bool("syncAdd"), Direct: vr.Bool("direct"), FadvDontNeed: fadv}
	vr.SpawnDeferred(true)
	bc, err := NewDirectoryCache(root, cfg)
	vr.Assert(err == nil, "cache-created")
	committed := map[string][][]byte{}
	var writers []*verifWriterH
	var readers []*verifReaderH
	newWriter := func() *verifWriterH {
		k := verifKeys[vr.Choice("key", nkeys)]
		var opts []Option
		if vr.Tier() > 0 && vr.Bool("optDirect") {
			opts = append(opts, Direct())
		}
		w, err := bc.Add(k, opts...)
		if err != nil {
			return nil
		}
		dl := 1
		if vr.Tier() > 0 {
			dl = vr.Len("datalen", 1) // zero-length values too
		}
		d := vr.Bytes("data", dl)
		n, werr := w.Write(d)
		vr.Assert(werr == nil && n == len(d), "write-accepts-data")
		return &verifWriterH{key: k, w: w, data: d}
	}
	commit := func(h *verifWriterH) {
		if !h.closed {
			h.closed = true
			if h.w.Commit() == nil {
				committed[h.key] = append(committed[h.key], h.data)
			}
			h.w.Close()
		}
	}
	for s := 0; s < steps; s++ {
		switch vr.Choice("op", 7) {
		case 0: // Add + Write, writer stays open
			if h := newWriter(); h != nil {
				writers = append(writers, h)
			}
		case 1: // Add + Write + Commit + Close
			if h := newWriter(); h != nil {
				writers = append(writers, h)
				commit(h)
			}
		case 2: // Commit (+ Close) of some open writer
			if n := len(writers); n > 0 {
				commit(writers[vr.Choice("writer", n)])
			}
		case 3: // Abort (+ Close)
			if n := len(writers); n > 0 {
				h := writers[vr.Choice("writer", n)]
				if !h.closed {
					h.closed = true
					h.w.Abort()
					h.w.Close()
				}
			}
		case 4: // Get + full ReadAt (reader kept open across later operations)
			k := verifKeys[vr.Choice("key", nkeys)]
			var opts []Option
			if vr.Tier() > 0 && vr.Bool("optDirect") {
				opts = append(opts, Direct())
			}
			if r, err := bc.Get(k, opts...); err == nil {
				readers = append(readers, &verifReaderH{key: k, r: r})
				verifCheckRead(r, k, committed)
			}
		case 5: // re-read through a reader still held, then close it
			if n := len(readers); n > 0 {
				i := vr.Choice("reader", n)
				h := readers[i]
				verifCheckRead(h.r, h.key, committed)
				h.r.Close()
				readers = append(readers[:i:i], readers[i+1:]...)
			}
		default: // a pending background persistence goroutine runs now
			if n := vr.Pending(); n > 0 {
				vr.RunPending(vr.Choice("pending", n))
			}
		}
	}
	// let all background commits finish, then every key must serve one of its committed values or miss
	for vr.Pending() > 0 {
		vr.RunPending(0)
	}
	for _, k := range verifKeys {
		if r, err := bc.Get(k, Direct()); err == nil {
			verifCheckRead(r, k, committed)
			r.Close()
		}
	}
	vr.Reach("end")
}

// verifCheckRead reads everything the reader has and asserts it equals a value committed under that key.
func verifCheckRead(r Reader, key string, committed map[string][][]byte) {
	buf := make([]byte, 4)
	n, _ := r.ReadAt(buf, 0)
	got := buf[:n]
	ok := false
	for _, c := range committed[key] {
		if bytes.Equal(got, c) {
			ok = true
		}
	}
	vr.Assert(ok, "hit-returns-exactly-a-committed-value-of-that-key")
}

// C11/H1: the memory chunk cache.
func VerifH_C11_memcacheHistory() {
	mc := NewMemoryCache()
	committed := map[string][][]byte{}
	var writers []*verifWriterH
	for s := 0; s < 4; s++ {
		switch vr.Choice("op", 4) {
		case 0:
			k := verifKeys[vr.Choice("key", 2)]
			w, err := mc.Add(k)
			vr.Assert(err == nil, "add")
			d := vr.Bytes("data", vr.Len("datalen", 2))
			w.Write(d)
			writers = append(writers, &verifWriterH{key: k, w: w, data: d})
		case 1:
			if n := len(writers); n > 0 {
				h := writers[vr.Choice("writer", n)]
				if !h.closed {
					h.closed = true
					if h.w.Commit() == nil {
						committed[h.key] = append(committed[h.key], h.data)
					}
				}
			}
		case 2:
			if n := len(writers); n > 0 {
				h := writers[vr.Choice("writer", n)]
				if !h.closed {
					h.closed = true
					h.w.Abort()
				}
			}
		default:
			k := verifKeys[vr.Choice("key", 2)]
			if r, err := mc.Get(k); err == nil {
				verifCheckRead(r, k, committed)
				r.Close()
			}
		}
	}
	vr.Reach("end")
}
